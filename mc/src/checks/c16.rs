//! C16: metadata trees are read, written and stored with order and bytes preserved.

use std::sync::Arc;

use serde_json::json;

use crate::checks::c08::finish_out;
use crate::common::*;
use crate::ops::*;
use crate::rec::*;
use crate::tarfmt;
use crate::ubj::{self, MVal, Meta};
use crate::util::*;

pub const ORACLES: &[(&str, Oracle)] = &[("metadata", o_metadata)];

pub fn o_metadata(input: &[u8], p: &P) -> Out {
	let rg = domain(input, "C16");
	let mut out = Out { transitions: 4, nontrivial: true, ..Default::default() };
	let r = catch(|| -> Result<u64, (String, String)> {
		let e = |k: &str, m: String| (k.to_string(), m);
		// expectation from the bytes, by the harness's own decoder
		let want: Option<Meta> = match &rg.metadata_body {
			Some(body) => Some(ubj::dec_entries(body, 0).map_err(|m| e("model", m))?.0),
			None => None,
		};
		// skip_frames keeps the read cheap, but needs exactly one Game End (it jumps to the last one)
		let g = match read_slp(input, rg.n_ends == 1 && rg.rows.is_empty() && rg.gecko.is_none(), false) {
			Ok(g) => g,
			// beyond the library's nesting bound (needed so that hostile nesting cannot overflow the stack)
			// a refusal is accepted; whatever IS accepted must make the whole trip
			Err(Fail::Err(_)) if p.class == "deep-chain" => return Ok(3),
			Err(f) => return Err(e(&format!("read-failed:{}", f.key()), format!("reading failed: {}", f.describe()))),
		};
		let got = match &g.metadata {
			Some(m) => Some(ubj::from_json(m).map_err(|m| e("value-kind", m))?),
			None => None,
		};
		if got != want {
			return Err(e("tree", format!("metadata tree differs (key order counts):\n  got  {:?}\n  want {:?}", short(&got), short(&want))));
		}
		// the same file as a recorder leaves it when it could not patch the header (declared raw length 0, the
		// element itself complete): the events are walked up to Game End, the metadata after it is the same
		if rg.n_ends == 1 && rg.junk_after_end == 0 {
			let mut z = input.to_vec();
			z[11..15].copy_from_slice(&[0, 0, 0, 0]);
			let gz = read_slp(&z, false, false).map_err(|f| e(&format!("read-failed-raw-length-0:{}", f.key()), format!("reading the same file with a declared raw length of 0 failed: {}", f.describe())))?;
			let gotz = match &gz.metadata {
				Some(m) => Some(ubj::from_json(m).map_err(|m| e("value-kind", m))?),
				None => None,
			};
			if gotz != want {
				return Err(e("tree-raw-length-0", format!("with a declared raw length of 0 the metadata tree differs:\n  got  {:?}\n  want {:?}", short(&gotz), short(&want))));
			}
		}
		let w = write_slp(&g).map_err(|f| e(&format!("write-failed:{}", f.key()), format!("writing failed: {}", f.describe())))?;
		if p.class == "tail" {
			// tolerated content after Game End inside the raw element is not kept by the writer, so the files differ
			// there; the metadata element that follows it must still be reproduced byte for byte
			// (the written file is the library's output, not a generated input: if the model cannot parse it, that is
			// a verdict about the writer, not a machinery failure)
			let wg = crate::model::refparse(&w).map_err(|m| e("written-file-malformed", format!("the written file is not a well-formed replay: {}", m)))?;
			if wg.metadata_body != rg.metadata_body {
				return Err(e("bytes-after-tail", "the written metadata element differs from the original one (replay with tolerated content after Game End)".into()));
			}
		} else if w != input {
			return Err(e("bytes", format!("write(read(x)) != x at byte {:?}", first_diff(input, &w))));
		}
		// the JSON copy stored in .slpp
		let arch = write_slpp(g, p.comp).map_err(|f| e(&format!("slpp-write-failed:{}", f.key()), f.describe()))?;
		let entries = tarfmt::entries(&arch).map_err(|m| e("tar", m))?;
		let mj = entries.iter().find(|x| x.name == "metadata.json").ok_or_else(|| e("no-metadata-json", "archive has no metadata.json".into()))?;
		let j = ubj::parse_json(&mj.data).map_err(|m| e("metadata-json-invalid", m))?;
		let want_j = want.as_ref().map_or(ubj::J::Null, ubj::meta_to_j);
		if j != want_j {
			return Err(e("metadata-json", format!("metadata.json differs from the tree (key order counts): {}", String::from_utf8_lossy(&mj.data[..mj.data.len().min(300)]))));
		}
		let g2 = read_slpp(&arch, rg.rows.is_empty()).map_err(|f| e(&format!("slpp-read-failed:{}", f.key()), format!("peppi::read failed: {}", f.describe())))?;
		let got2 = match &g2.metadata {
			Some(m) => Some(ubj::from_json(m).map_err(|m| e("value-kind", m))?),
			None => None,
		};
		if got2 != want {
			return Err(e("slpp-tree", format!("metadata read back from .slpp differs:\n  got  {:?}\n  want {:?}", short(&got2), short(&want))));
		}
		Ok(xx(format!("{:?}", want.as_ref().map(|m| m.len())).as_bytes()))
	});
	finish_out(&mut out, "metadata", p, r);
	out
}

fn short(m: &Option<Meta>) -> String {
	let s = format!("{:?}", m);
	if s.len() > 400 {
		format!("{}...", &s[..s.char_indices().take_while(|(i, _)| *i < 400).last().map_or(0, |(i, _)| i)])
	} else {
		s
	}
}

struct Level {
	max_entries: usize,
	keys: Vec<String>,
	leaves: Vec<MVal>,
}

/// all maps at `depth` (0-based index into levels)
fn trees(levels: &[Level], depth: usize) -> Vec<Meta> {
	let lv = &levels[depth];
	let sub: Vec<MVal> = if depth + 1 < levels.len() { trees(levels, depth + 1).into_iter().map(MVal::Map).collect() } else { vec![] };
	let mut values: Vec<MVal> = lv.leaves.clone();
	values.extend(sub);
	let mut out: Vec<Meta> = vec![vec![]];
	// ordered selections of distinct keys
	fn keyseqs(keys: &[String], k: usize, cur: &mut Vec<String>, out: &mut Vec<Vec<String>>) {
		if cur.len() == k {
			out.push(cur.clone());
			return;
		}
		for key in keys {
			if !cur.contains(key) {
				cur.push(key.clone());
				keyseqs(keys, k, cur, out);
				cur.pop();
			}
		}
	}
	for k in 1..=lv.max_entries.min(lv.keys.len()) {
		let mut seqs = vec![];
		keyseqs(&lv.keys, k, &mut vec![], &mut seqs);
		for seq in seqs {
			// all value assignments
			let mut idx = vec![0usize; k];
			loop {
				out.push(seq.iter().cloned().zip(idx.iter().map(|i| values[*i].clone())).collect());
				let mut c = 0;
				loop {
					idx[c] += 1;
					if idx[c] < values.len() {
						break;
					}
					idx[c] = 0;
					c += 1;
					if c == k {
						break;
					}
				}
				if c == k {
					break;
				}
			}
		}
	}
	out
}

fn file_with_meta(m: Option<&Meta>, ends: u8) -> Vec<u8> {
	let mut a = base_replay((3, 16), vec![pc(0, false), pc(1, false)], 0);
	a.metadata = m.cloned();
	a.ends = ends;
	record(&a).doc.assemble()
}

pub fn run() {
	let cx = ctx();
	let s255: String = "ü".repeat(127) + "x"; // 255 bytes of UTF-8
	let k255: String = "k".repeat(255);
	let marker = "U S l { } \u{0} [".to_string();
	cx.note("rule", json!("(tails) five trees behind tolerated content after Game End of 601 .. 196,608 bytes (unknown events), one and two Game Ends: tree, written metadata element and the .slpp copy as for the other cases; (trees) all trees of a bounded grammar, every key ORDER included (ordered selections of distinct keys): level-1 maps with <=3 entries over keys {\"\", a, é, lastFrame, 255-byte key} (quick: 4 keys) and 12 leaf values (strings \"\", x, 255 bytes of 2-byte UTF-8, text made of the marker bytes U S l { } NUL; ints 0, 1, -1, 127, 128, 65536, i32::MIN, i32::MAX); nested trees to depth 3 with <=2 entries per map; chains of depth 1..140 (beyond depth 100 the reader may refuse; whatever it accepts must make the whole trip); widths up to 40 entries; 100..255 sibling maps (at top level, at depth 3, next to a 100-deep chain); keys with a private meaning in JSON libraries or decoders (serde_json's RawValue / Number markers, __proto__, a leading or trailing U+FEFF, control characters, quotes) with 6 value kinds at 4 places; blocks of 77 KB and 260 KB; the same file with a declared raw length of 0; no metadata; empty metadata; each with Game End present, absent or doubled (rotating). Encoded by the harness's own UBJSON writer, embedded in a minimal replay. Oracle: Game.metadata == the tree with the same key order, write reproduces the input bytes, metadata.json inside the .slpp (own tar reader, order-preserving tokenizer) has the same keys in the same order and the same values, peppi::read gives the same tree; absent metadata => None / null. Every case is non-trivial (distinct tree)"));
	cx.note("exhaustive", json!(true));
	cx.note("assumptions", json!(["map nesting is bounded by the library (fix 1cec1ba) so that hostile nesting cannot overflow the stack; a refusal beyond depth 100 is accepted", "trees larger than the grammar (more entries per map, deeper nesting with wide maps) are not enumerated"]));
	let quick = cx.quick();
	let ints = [0, 1, -1, 127, 128, 65_536, i32::MIN, i32::MAX];
	let mut leaves: Vec<MVal> = vec![MVal::Str("".into()), MVal::Str("x".into()), MVal::Str(s255.clone()), MVal::Str(marker.clone())];
	leaves.extend(ints.iter().map(|i| MVal::Int(*i)));
	let keys1: Vec<String> = if quick { vec!["".into(), "a".into(), "é".into(), "lastFrame".into()] } else { vec!["".into(), "a".into(), "é".into(), "lastFrame".into(), k255.clone()] };
	let mut all: Vec<Option<Meta>> = vec![None, Some(vec![])];
	all.extend(trees(&[Level { max_entries: 3, keys: keys1, leaves: leaves.clone() }], 0).into_iter().map(Some));
	// nested
	let nested = [
		Level { max_entries: 2, keys: vec!["a".into(), "é".into(), "".into()], leaves: vec![MVal::Str("x".into()), MVal::Int(-1)] },
		Level { max_entries: 2, keys: vec!["a".into(), "lastFrame".into()], leaves: vec![MVal::Str("".into()), MVal::Int(128)] },
		Level { max_entries: if quick { 1 } else { 2 }, keys: if quick { vec!["é".into()] } else { vec!["é".into(), "k".into()] }, leaves: vec![MVal::Int(i32::MIN), MVal::Str(marker.clone())] },
	];
	all.extend(trees(&nested, 0).into_iter().map(Some));
	// chains and widths
	for d in 1..=140usize {
		let mut m: Meta = vec![("leaf".into(), MVal::Int(d as i32 - 50))];
		for i in 0..d {
			m = vec![(format!("d{}", i), MVal::Map(m))];
		}
		all.push(Some(m));
	}
	for w in [4usize, 5, 8, 16, 40] {
		all.push(Some((0..w).rev().map(|i| (format!("key{}", (i * 7) % w), MVal::Int(i as i32))).collect()));
	}
	all.push(Some(vec![(k255.clone(), MVal::Str(s255.clone())), ("players".into(), MVal::Map(vec![("1".into(), MVal::Map(vec![])), ("0".into(), MVal::Map(vec![]))]))]));
	// many maps that are NOT nested in each other: siblings, and siblings next to a chain
	for n in [100usize, 126, 127, 128, 200, 255] {
		all.push(Some((0..n).map(|i| (format!("m{}", i), MVal::Map(vec![("v".into(), MVal::Int(i as i32))]))).collect()));
		all.push(Some(vec![("a".into(), MVal::Map(vec![("b".into(), MVal::Map((0..n).map(|i| (format!("{}", i), MVal::Map(vec![]))).collect()))]))]));
	}
	{
		let mut chain: Meta = vec![("leaf".into(), MVal::Str("x".into()))];
		for i in 0..100 {
			chain = vec![(format!("d{}", i), MVal::Map(chain))];
		}
		let mut m: Meta = (0..60).map(|i| (format!("s{}", i), MVal::Map(vec![]))).collect();
		m.push(("chain".into(), MVal::Map(chain.clone())));
		m.extend((0..60).map(|i| (format!("t{}", i), MVal::Map(vec![("z".into(), MVal::Map(vec![]))]))));
		all.push(Some(m));
	}
	// keys that JSON libraries give a private meaning to (serde_json's `raw_value` and `arbitrary_precision`
	// markers), and keys that look like other things: as the first key, a later key, at top level and nested,
	// with a string, a number-looking string, an int and a map as value
	for magic in ["\u{feff}tag", "tag\u{feff}", "\u{feff}", "\u{fffe}x", "$serde_json::private::RawValue", "$serde_json::private::Number", "$__toml_private_datetime", "__proto__", "\u{0}", "a\"b\\c", "\u{7f}\t\n"] {
		for val in [MVal::Str("\u{feff}bom first".into()), MVal::Str("12".into()), MVal::Str("not json".into()), MVal::Str("{\"x\":1}".into()), MVal::Int(7), MVal::Map(vec![("x".into(), MVal::Int(1))])] {
			all.push(Some(vec![(magic.to_string(), val.clone())]));
			all.push(Some(vec![("extra".into(), MVal::Map(vec![(magic.to_string(), val.clone())]))]));
			all.push(Some(vec![("a".into(), MVal::Int(1)), (magic.to_string(), val.clone()), ("z".into(), MVal::Str("x".into()))]));
			all.push(Some(vec![("n".into(), MVal::Map(vec![(magic.to_string(), val.clone()), ("b".into(), MVal::Int(2))]))]));
		}
	}
	// large blocks: hundreds of long strings (77 KB, 260 KB of metadata - beyond 16-bit sizes and typical
	// buffer caps)
	for n in [300usize, 1000] {
		all.push(Some((0..n).map(|i| (format!("key{:04}", i), MVal::Str("v".repeat(250)))).collect()));
	}
	cx.note("trees", json!(all.len()));
	par_each(all.into_iter().enumerate(), |(n, m), local| {
		// Game End present / absent / doubled, rotating over the trees (the special shapes get all three)
		let ends = [1u8, 0, 2][n % 3];
		let bytes = Arc::new(file_with_meta(m.as_ref(), ends));
		let depth = |m: &Meta| -> usize {
			let mut d = 1;
			let mut cur = m;
			while let Some((_, MVal::Map(inner))) = cur.first() {
				d += 1;
				cur = inner;
			}
			d
		};
		let p = P { comp: (n % 3) as u8, class: if m.is_none() { "none" } else if depth(m.as_ref().unwrap()) > 100 { "deep-chain" } else { "tree" }, ..Default::default() };
		eval_case("metadata", o_metadata, &bytes, &p, || short(&m), local);
	});
	// the metadata element behind tolerated content after Game End (unknown events: 600 bytes, 8 x 601 = 4,808 bytes,
	// 3,000 x 2 = 6,000 bytes, 65,536 bytes, 3 x 65,536 bytes), one and two Game Ends: whatever a reader does with that
	// content, the element after it is found at the declared end of raw
	{
		let tails: Vec<(&str, Vec<usize>)> = vec![("1x601", vec![2]), ("8x601", vec![2; 8]), ("3000x2", vec![0; 3000]), ("1x65536", vec![5]), ("3x65536", vec![5; 3]), ("7x601+2x2", vec![2, 2, 2, 0, 2, 2, 0, 2, 2])];
		let trees: Vec<Option<Meta>> = vec![
			None,
			Some(vec![]),
			Some(vec![("startAt".into(), MVal::Str("2020-01-01T00:00:00Z".into())), ("lastFrame".into(), MVal::Int(-123)), ("players".into(), MVal::Map(vec![("0".into(), MVal::Map(vec![("names".into(), MVal::Map(vec![("netplay".into(), MVal::Str("é".into()))]))]))]))]),
			Some(vec![(k255.clone(), MVal::Str(s255.clone()))]),
			Some((0..300).map(|i| (format!("key{:04}", i), MVal::Str("v".repeat(250)))).collect()),
		];
		let mut jobs = vec![];
		for (ti, t) in trees.iter().enumerate() {
			for (tl, ks) in &tails {
				for ends in [1u8, 2] {
					jobs.push((t.clone(), *tl, ks.clone(), ends, ti));
				}
			}
		}
		cx.note("tail_cases", json!(jobs.len()));
		par_each(jobs.into_iter().enumerate(), |(n, (m, tl, ks, ends, _ti)), local| {
			let mut a = base_replay((3, 16), vec![pc(0, false), pc(1, false)], 1);
			a.metadata = m.clone();
			a.ends = ends;
			let doc = record(&a).doc;
			let nb = doc.events.len();
			let ins: Vec<(usize, usize)> = ks.iter().map(|k| (*k, nb)).collect();
			let bytes = Arc::new(crate::checks::c08::with_unknown(&doc, &ins));
			let p = P { comp: (n % 3) as u8, class: "tail", ..Default::default() };
			eval_case("metadata", o_metadata, &bytes, &p, || format!("{} behind a tail of {} after {} Game End(s)", short(&m), tl, ends), local);
		});
	}
	{
		let uni = crate::gen::universe(cx.quick());
		par_each(uni.into_iter().enumerate(), |(i, abs), local| {
			let bytes = Arc::new(record(&abs).doc.assemble());
			let p = P { comp: (i % 3) as u8, class: if abs.metadata.is_none() { "none" } else { "universe" }, ..Default::default() };
			eval_case("metadata", o_metadata, &bytes, &p, || abs.describe(), local);
		});
	}
	finish(cx);
}
