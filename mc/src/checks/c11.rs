//! C11: the replay hash is the XXH3-64 of exactly the file's bytes, however they arrive.

use std::sync::Arc;

use serde_json::json;

use crate::checks::c02::expected_hash;
use crate::checks::c08::finish_out;
use crate::common::*;
use crate::env::{EnvReader, Sched};
use crate::inc::{sched_of, set_sched};
use crate::ops::*;
use crate::rec::*;
use crate::util::*;

pub const ORACLES: &[(&str, Oracle)] = &[("hash", o_hash)];

/// p: skip, hash (requested?), schedule in n[1..], comp (for the .slpp carry-through when n[0] = 1)
pub fn o_hash(input: &[u8], p: &P) -> Out {
	// trailing bytes after the closing brace are allowed here: the model tells where the file ends
	let rg = domain(input, "C11");
	let mut out = out_from(&rg);
	out.nontrivial = true;
	let r = catch(|| -> Result<u64, (String, String)> {
		let e = |k: &str, m: String| (k.to_string(), m);
		if p.n[0] == 2 {
			// history: the same thread first reads a cut-off copy of the file with hashing on (that read
			// gives up part-way), then the whole file
			let cut = (p.n[2].max(0) as usize).min(input.len());
			let _ = read_slp_from(std::io::Cursor::new(&input[..cut]), p.skip, true);
		}
		if p.n[0] == 3 {
			// the debug option (dump every event to a directory) next to the hash option: it must not switch
			// hashing on or off, nor change the value
			let g = read_slp_debug(input, p.skip, p.hash).map_err(|f| e(&format!("read-failed:{}", f.key()), format!("reading with the debug option failed: {}", f.describe())))?;
			let want = if p.hash { Some(expected_hash(&input[..rg.consumed])) } else { None };
			if g.hash != want {
				return Err(e("hash-with-debug-option", format!("with the debug option set and compute_hash={} the hash is {:?}, expected {:?}", p.hash, g.hash, want)));
			}
			return Ok(3);
		}
		if p.n[0] == 4 {
			// the same complete file with a declared raw length of 0 (header never patched): read to its closing
			// brace all the same, so the hash is the digest of those bytes
			let mut z = input[..rg.consumed].to_vec();
			z[11..15].copy_from_slice(&[0, 0, 0, 0]);
			let mut rd = EnvReader::new(&z, sched_of(p));
			let g = read_slp_from(&mut rd, false, true).map_err(|f| e(&format!("read-failed:{}", f.key()), format!("reading the file with a declared raw length of 0 failed: {}", f.describe())))?;
			let want = expected_hash(&z);
			if g.hash.as_deref() != Some(want.as_str()) {
				return Err(e("hash-raw-length-0", format!("with a declared raw length of 0 the hash is {:?}, but XXH3-64 of the {} bytes is {}", g.hash, z.len(), want)));
			}
			return Ok(4);
		}
		let mut rd = EnvReader::new(input, sched_of(p));
		let g = read_slp_from(&mut rd, p.skip, p.hash);
		if let (Sched::FailAt(_, std::io::ErrorKind::Interrupted), Err(Fail::Err(_))) = (sched_of(p), &g) {
			// giving up on an interrupted read call is an error (whatever its text), not a wrong hash
			return Ok(2);
		}
		let g = g.map_err(|f| e(&format!("read-failed:{}", f.key()), format!("reading a well-formed replay failed under this read schedule: {}", f.describe())))?;
		if !p.hash {
			if g.hash.is_some() {
				return Err(e("hash-unrequested", format!("hash {:?} reported although not requested", g.hash)));
			}
			return Ok(1);
		}
		let want = expected_hash(&input[..rg.consumed]);
		if g.hash.as_deref() != Some(want.as_str()) {
			return Err(e("hash-value", format!("reported {:?}, but XXH3-64 of the {} bytes through the closing brace is {}", g.hash, rg.consumed, want)));
		}
		// (how far the implementation reads ahead in the underlying stream is not judged: an internal
		// buffer may fetch bytes after the closing brace, what counts is that they are not hashed)
		if rd.handed < rg.consumed {
			return Err(e("consumed", format!("the reader consumed only {} bytes; the file ends at {}", rd.handed, rg.consumed)));
		}
		if p.n[0] == 1 {
			// whatever string the game carries as its hash is stored and comes back: the library's own form and
			// strings a caller put there (another algorithm, no prefix, empty)
			for foreign in ["sha256:9f86d081884c7d659a2feaa0c55ad015a3bf4f1b2b0b822cd15d6c15b0f00a08", "ad20869043854057", "XXH3:00", "", "xxh3:"] {
				let mut gf = read_slp(input, false, false).map_err(|f| e(&format!("read-failed:{}", f.key()), f.describe()))?;
				gf.hash = Some(foreign.to_string());
				let arch = write_slpp(gf, p.comp).map_err(|f| e(&format!("slpp-write-failed:{}", f.key()), f.describe()))?;
				let back = read_slpp(&arch, xx(foreign.as_bytes()) % 2 == 0).map_err(|f| e(&format!("slpp-read-failed:{}", f.key()), f.describe()))?;
				if back.hash.as_deref() != Some(foreign) {
					return Err(e("hash-carried", format!("a game carrying the hash string {:?} comes back from .slpp with {:?}", foreign, back.hash)));
				}
			}
			let arch = write_slpp(g, p.comp).map_err(|f| e(&format!("slpp-write-failed:{}", f.key()), f.describe()))?;
			for skip in [false, true] {
				let g2 = read_slpp(&arch, skip).map_err(|f| e(&format!("slpp-read-failed:{}", f.key()), f.describe()))?;
				if g2.hash.as_deref() != Some(want.as_str()) {
					return Err(e("hash-carried", format!("hash after .slpp (skip={}) is {:?}, expected {}", skip, g2.hash, want)));
				}
			}
		}
		Ok(xx(want.as_bytes()))
	});
	finish_out(&mut out, "hash", p, r);
	out
}

pub fn bases() -> Vec<(AbsReplay, usize)> {
	let two = vec![pc(0, false), PortCfg { port: 2, ics: true, ptype: 1 }];
	let mk = |v: (u8, u8), gecko: bool, ends: u8, meta: bool| {
		let mut a = base_replay(v, two.clone(), 2);
		if crate::spec::regime(v) == 2 {
			a.frames[0].items = 1;
		}
		a.frames[1].present[1][1] = false;
		if gecko {
			a.gecko = Gecko::Live { live: 700, nonzero_pad: true };
		}
		a.ends = ends;
		if !meta {
			a.metadata = None;
		}
		a
	};
	// a finished replay without any frame: with skip_frames the jump distance is zero
	let mut zero = mk((3, 16), false, 1, true);
	zero.frames.clear();
	let mut zero_old = mk((1, 0), false, 1, false);
	zero_old.frames.clear();
	vec![(zero, 0), (zero_old, 0), (mk((0, 1), false, 1, true), 0), (mk((2, 2), false, 1, false), 0), (mk((3, 0), false, 2, true), 0), (mk((3, 16), true, 1, true), 0), (mk((3, 16), true, 2, false), 0), (mk((3, 7), false, 1, true), 0)]
}

pub fn schedules(bytes: &[u8], skip: bool, hash: bool, two_dev: bool) -> Vec<Sched> {
	let mut out = vec![Sched::Full];
	for k in 1..=16usize {
		out.push(Sched::Chunk(k));
	}
	for k in [32usize, 64, 128, 256, 512, 1024, 4096] {
		out.push(Sched::Chunk(k));
	}
	for at in 1..bytes.len() {
		out.push(Sched::SplitAt(at));
	}
	// deviation-bounded short reads over all read-call indices of the clean run
	let mut r = EnvReader::new(bytes, Sched::Full);
	let _guard = prepass("prepass_read_slp", bytes, &P { skip, hash, ..Default::default() });
	let _ = read_slp_from(&mut r, skip, hash);
	drop(_guard);
	let calls = r.calls;
	for i in 0..calls {
		for k in [1usize, 2, 3] {
			out.push(Sched::ShortAt(vec![(i, k)]));
		}
	}
	// one interrupted read call (EINTR: the call fails, the caller repeats it), at every read-call index
	for i in 0..calls {
		out.push(Sched::FailAt(i, std::io::ErrorKind::Interrupted));
	}
	if two_dev {
		for i in 0..calls {
			for j in i + 1..calls {
				for (k1, k2) in [(1usize, 1usize), (2, 1)] {
					out.push(Sched::ShortAt(vec![(i, k1), (j, k2)]));
				}
			}
		}
	}
	out
}

pub fn run() {
	let cx = ctx();
	cx.note("rule", json!("replays with 1 .. 17 MiB (thorough: 33 MiB) of events ahead of Game End, hash with and without skip_frames; 8 replays (all regimes; gecko, doubled end, no metadata, two without any frame) x read schedules of an environment-owned reader: full reads, fixed chunk sizes 1..16/32/../4096, EVERY two-piece split (one short read at every byte offset), every single short read (1,2,3 bytes) at every read-call index, one interrupted read call (ErrorKind::Interrupted, then the call is repeated) at every read-call index, and (thorough) every pair of short reads; x skip_frames {off,on}; plus 1..64 trailing bytes after the closing brace; plus 2 .. 140,000 bytes of unknown events after Game End inside the raw element; plus hash not requested; plus the debug option set (hash off and on); plus call histories (a hashed read of the file cut at every 8th offset, which gives up part-way, then the whole file on the same thread); plus .slpp carry-through for 3 compressions (the computed hash and five foreign hash strings); plus the same files with a declared raw length of 0. Oracle: hash == \"xxh3:\" + 16 hex digits of the ONE-SHOT xxh3_64 over the bytes through the closing brace (a different code path from the streaming hasher), identical for all schedules and both skip settings. Every case is non-trivial (a distinct schedule)"));
	cx.note("exhaustive", json!(true));
	cx.note("assumptions", json!(["xxhash-rust's one-shot xxh3_64 is the reference (trusted base)", "short reads hand out at least one byte (a zero-length read means EOF)"]));
	let mut jobs: Vec<(Arc<Vec<u8>>, String, P)> = vec![];
	for (a, _) in bases() {
		let bytes = Arc::new(record(&a).doc.assemble());
		let label = a.describe();
		for skip in [false, true] {
			for s in schedules(&bytes, skip, true, !cx.quick()) {
				let mut p = P { skip, hash: true, class: "schedule", ..Default::default() };
				set_sched(&mut p, &s);
				jobs.push((bytes.clone(), label.clone(), p));
			}
			// hash off
			let mut p = P { skip, hash: false, class: "hash-off", ..Default::default() };
			set_sched(&mut p, &Sched::Full);
			jobs.push((bytes.clone(), label.clone(), p.clone()));
			set_sched(&mut p, &Sched::Chunk(3));
			jobs.push((bytes.clone(), label.clone(), p));
			// trailing bytes
			for n in 1..=64usize {
				let mut b = (*bytes).clone();
				for k in 0..n {
					b.push(if k % 3 == 0 { b'}' } else { fill_byte(Fill::A, n, k) });
				}
				let mut p = P { skip, hash: true, class: "trailing", ..Default::default() };
				set_sched(&mut p, &if n % 2 == 0 { Sched::Full } else { Sched::Chunk(5) });
				jobs.push((Arc::new(b), format!("{} + {} trailing bytes", label, n), p));
			}
			// history: a hashed read of a cut-off copy (every 8th cut), then the whole file, on the same thread
			for cut in (0..bytes.len()).step_by(8) {
				let mut p = P { skip, hash: true, class: "after-failed-read", ..Default::default() };
				set_sched(&mut p, &Sched::Full);
				p.n[0] = 2;
				p.n[2] = cut as i64;
				jobs.push((bytes.clone(), format!("{} after a hashed read of its first {} bytes", label, cut), p));
			}
			// the debug option next to the hash option (small replays only: it writes a file per event)
			if bytes.len() < 3000 {
				for hash in [false, true] {
					let mut p = P { skip, hash, class: "debug-option", ..Default::default() };
					set_sched(&mut p, &Sched::Full);
					p.n[0] = 3;
					jobs.push((bytes.clone(), format!("{} with the debug option", label), p));
				}
			}
			// declared raw length 0 (needs exactly one Game End: the reader stops at it)
			if !skip && a.ends == 1 {
				for sc in [Sched::Full, Sched::Chunk(1), Sched::Chunk(4096)] {
					let mut p = P { skip: false, hash: true, class: "raw-length-0", ..Default::default() };
					set_sched(&mut p, &sc);
					p.n[0] = 4;
					jobs.push((bytes.clone(), format!("{} with a declared raw length of 0", label), p));
				}
			}
			// .slpp carry-through
			if !skip {
				for comp in 0..3u8 {
					let mut p = P { skip, hash: true, comp, class: "slpp", ..Default::default() };
					set_sched(&mut p, &Sched::Full);
					p.n[0] = 1;
					jobs.push((bytes.clone(), label.clone(), p));
				}
			}
		}
	}
	// long stretches of table-declared unknown events after Game End, inside the raw element (what the reader
	// has to get past after the last event it understands): lengths around 64 KiB and beyond
	for v in [(2u8, 0u8), (3, 16)] {
		let a = base_replay(v, vec![pc(0, false)], 1);
		let doc = record(&a).doc;
		for t in [2usize, 3, 7, 600, 65_535, 65_536, 65_537, 70_000, 140_000] {
			let mut d2 = doc.clone();
			let mut left = t;
			let mut code = 0x70u8;
			while left >= 2 {
				let size = (left - 1).min(65_535);
				// leave room for a last event of at least one payload byte
				let size = if left - 1 - size == 1 { size - 1 } else { size };
				d2.table.push((code, size as u16));
				d2.events.push(Ev { code, payload: (0..size).map(|i| fill_byte(Fill::B, code as usize, i)).collect(), tag: Tag::Unknown });
				left -= 1 + size;
				code += 1;
			}
			let bytes = Arc::new(d2.assemble());
			// (full reads only: skip_frames jumps to where Game End is when it is the LAST event, C10's domain)
			for skip in [false] {
				for s in [Sched::Full, Sched::Chunk(4096), Sched::Chunk(7)] {
					let mut p = P { skip, hash: true, class: "long-tail", ..Default::default() };
					set_sched(&mut p, &s);
					jobs.push((bytes.clone(), format!("v{}.{} with {} bytes of unknown events after Game End", v.0, v.1, t), p));
				}
			}
		}
	}
	// megabytes of events ahead of Game End (what skip_frames jumps over, and what a full read walks through): sizes
	// just past 1, 4, 8 and 16 MiB and 20 MiB, so that a jump or copy done in pieces of any power-of-two size up to
	// 16 MiB has a short last piece; hash with and without skip_frames
	{
		let a = base_replay((3, 16), vec![pc(0, false), pc(1, false)], 2);
		let doc = record(&a).doc;
		let targets: Vec<usize> = if cx.quick() { vec![(1 << 20) + 3, (8 << 20) + 3, (17 << 20) + 4099] } else { vec![(1 << 20) + 3, (4 << 20) + 3, (8 << 20) + 3, (16 << 20) + 3, (20 << 20) + 12345, (33 << 20) + 1] };
		for t in targets {
			let mut d2 = doc.clone();
			d2.table.push((0x70, 65_535));
			d2.table.push((0x71, 4_000));
			let at = d2.events.len() - 1; // ahead of the one Game End
			let mut left = t;
			let mut n = 0usize;
			while left > 0 {
				let (code, size) = if left >= 65_536 { (0x70u8, 65_535usize) } else { (0x71, 4_000) };
				d2.events.insert(at, Ev { code, payload: (0..size).map(|i| fill_byte(Fill::B, n + 1, i)).collect(), tag: Tag::Unknown });
				left = left.saturating_sub(size + 1);
				n += 1;
			}
			let bytes = Arc::new(d2.assemble());
			for skip in [false, true] {
				for sc in [Sched::Full, Sched::Chunk(4096)] {
					let mut p = P { skip, hash: true, class: "megabytes", ..Default::default() };
					set_sched(&mut p, &sc);
					jobs.push((bytes.clone(), format!("v3.16 with about {} bytes of unknown events ahead of Game End", t), p));
				}
			}
		}
	}
	for (i, a) in crate::gen::universe(cx.quick()).into_iter().enumerate() {
		let bytes = Arc::new(record(&a).doc.assemble());
		let label = a.describe();
		for skip in [false, true] {
			if skip && a.ends == 0 {
				continue; // skip_frames needs a Game End
			}
			let scheds = [Sched::Full, Sched::Chunk(1), Sched::Chunk(7)];
			let mut p = P { skip, hash: true, comp: (i % 3) as u8, class: "universe", ..Default::default() };
			set_sched(&mut p, &scheds[(i + skip as usize) % 3]);
			p.n[0] = (i % 4 == 0 && !skip) as i64;
			jobs.push((bytes.clone(), label.clone(), p));
		}
	}
	cx.note("cases", json!(jobs.len()));
	par_each(jobs.into_iter(), |(bytes, label, p), local| {
		eval_case("hash", o_hash, &bytes, &p, || format!("{} sched={:?}", label, sched_of(&p)), local);
	});
	finish(cx);
}
