//! C08: unknown events and longer payloads from newer versions never disturb known data.

use std::sync::Arc;

use serde_json::json;

use crate::common::*;
use crate::model::{compare_frames, refparse};
use crate::ops::*;
use crate::rec::*;
use crate::spec::{self, Kind};
use crate::util::*;

pub const ORACLES: &[(&str, Oracle)] = &[("unknown_events", o_unknown), ("extended_payloads", o_extended)];

const KNOWN: [u8; 10] = [0x10, 0x35, 0x36, 0x37, 0x38, 0x39, 0x3A, 0x3B, 0x3C, 0x3D];

/// Remove every event whose code the format does not define (and its table entry).
pub fn strip_unknown(b: &[u8]) -> Vec<u8> {
	let raw_len = u32::from_be_bytes([b[11], b[12], b[13], b[14]]) as usize;
	let tsz = b[16] as usize;
	let mut sizes = [0usize; 256];
	let mut table: Vec<(u8, u16)> = vec![];
	for i in 0..(tsz - 1) / 3 {
		let o = 17 + 3 * i;
		let sz = u16::from_be_bytes([b[o + 1], b[o + 2]]);
		sizes[b[o] as usize] = sz as usize;
		if KNOWN.contains(&b[o]) {
			table.push((b[o], sz));
		}
	}
	let mut raw: Vec<u8> = vec![0x35, (table.len() * 3 + 1) as u8];
	for (c, s) in &table {
		raw.push(*c);
		raw.extend_from_slice(&s.to_be_bytes());
	}
	let mut pos = 15 + 1 + tsz;
	let raw_end = 15 + raw_len;
	// the blocks of a Message Splitter sequence belong to the event they wrap (named in the block): they
	// stay or go with it
	let mut pending: Vec<(usize, usize)> = vec![];
	while pos < raw_end {
		let code = b[pos];
		let sz = sizes[code as usize];
		if code == 0x10 && sz == 516 {
			pending.push((pos, pos + 1 + sz));
			if b[pos + 1 + 515] != 0 {
				if KNOWN.contains(&b[pos + 1 + 514]) {
					for (a, z) in &pending {
						raw.extend_from_slice(&b[*a..*z]);
					}
				}
				pending.clear();
			}
		} else if KNOWN.contains(&code) {
			raw.extend_from_slice(&b[pos..pos + 1 + sz]);
		}
		pos += 1 + sz;
	}
	for (a, z) in &pending {
		raw.extend_from_slice(&b[*a..*z]);
	}
	let mut out = SIGNATURE.to_vec();
	out.extend_from_slice(&(raw.len() as u32).to_be_bytes());
	out.extend_from_slice(&raw);
	out.extend_from_slice(&b[raw_end..]);
	out
}

/// Unknown events too large for one event, cut into Message Splitter blocks the way Gecko codes are
/// (700 bytes = two blocks, 512 bytes = one full block, 1 byte), wrapped code 0x3E / 0xFE, inserted after
/// Game Start, after the Gecko list, in the middle and at the end of every quick base.
pub fn wrapped_unknown_docs() -> Vec<(Vec<u8>, String)> {
	let mut wrapped_jobs: Vec<(Vec<u8>, String)> = vec![];
	for a in bases(true) {
		let doc = record(&a).doc;
		let nb = doc.events.len();
		let after_gecko = doc.events.iter().rposition(|e| e.code == 0x10).map_or(1, |i| i + 1);
		for (code, total) in [(0x3Eu8, 700usize), (0xFE, 512), (0x3E, 1)] {
			for at in [1usize, after_gecko, (nb + 1) / 2, nb] {
				wrapped_jobs.push((with_wrapped_unknown(&doc, code, total, at), format!("{} + unknown event {:#04x} of {} bytes in splitter blocks at boundary {}", a.describe(), code, total, at)));
			}
		}
	}
	wrapped_jobs
}

pub fn with_wrapped_unknown(doc: &Doc, code: u8, total: usize, at: usize) -> Vec<u8> {
	let mut d = doc.clone();
	if d.size_of(0x10).is_none() {
		d.table.push((0x10, 516));
	}
	if d.size_of(code).is_none() {
		d.table.push((code, total as u16));
	}
	let data: Vec<u8> = (0..total).map(|i| fill_byte(Fill::B, 0x71, i)).collect();
	let chunks: Vec<&[u8]> = data.chunks(512).collect();
	for (ci, ch) in chunks.iter().enumerate() {
		let mut pl = ch.to_vec();
		pl.resize(512, 0xEE);
		pl.extend_from_slice(&(ch.len() as u16).to_be_bytes());
		pl.push(code);
		pl.push((ci + 1 == chunks.len()) as u8);
		d.events.insert(at.max(1) + ci, Ev { code: 0x10, payload: pl, tag: Tag::Unknown });
	}
	d.assemble()
}

pub fn o_unknown(input: &[u8], p: &P) -> Out {
	let rg = domain(input, "C08");
	let mut out = out_from(&rg);
	out.nontrivial = rg.unknown_events > 0;
	let base = strip_unknown(input);
	let r = catch(|| -> Result<u64, (String, String)> {
		let e = |k: &str, m: String| (k.to_string(), m);
		let g0 = read_slp(&base, false, false).map_err(|f| e("base-read-failed", format!("the replay without unknown events does not read: {}", f.describe())))?;
		let g = read_slp(input, false, false).map_err(|f| e(&format!("read-failed:{}", f.key()), format!("reading failed with {} unknown events declared in the table: {}", rg.unknown_events, f.describe())))?;
		games_equal(&g0, &g, false).map_err(|m| e("game-differs", format!("the game differs from the one read without the {} unknown events: {}", rg.unknown_events, m)))?;
		let q0 = g0.quirks.map_or(false, |q| q.double_game_end);
		let q = g.quirks.map_or(false, |q| q.double_game_end);
		if q0 != q {
			// the only difference: the doubled-Game-End quirk. Classified on its own (class-independent key).
			return Err(("QUIRK".to_string(), format!("the doubled Game End is no longer recognised (quirks {:?} instead of {:?}) when an unknown event follows the first Game End; the game would be written back with a single Game End", g.quirks, g0.quirks)));
		}
		compare_frames(&g.frames, &rg, rg.rows.len(), true).map_err(|(k, m)| e(&format!("model-{}", k), m))?;
		// the debug option (every event dumped to a directory, unknown ones included) changes nothing
		// (every 4th pair / triple insertion by content hash in the quick tier, every 32nd of the far larger thorough
		// set: the option writes a file per event)
		if input.len() < 6000 && matches!(p.class, "pair" | "triple") && xx(input) % (if ctx().quick() { 4 } else { 32 }) == 0 {
			let gd = read_slp_debug(input, false, false).map_err(|f| e(&format!("read-failed-with-debug:{}", f.key()), format!("reading with the debug option failed with {} unknown events present: {}", rg.unknown_events, f.describe())))?;
			games_equal(&g, &gd, false).map_err(|m| e("game-differs-with-debug", m))?;
		}
		// the skip_frames path walks over the unknown events as raw bytes: same start / end / metadata
		if g0.end.is_some() && rg.junk_after_end == 0 {
			let s0 = read_slp(&base, true, true).map_err(|f| e("base-skip-read-failed", f.describe()))?;
			let s1 = read_slp(input, true, true).map_err(|f| e(&format!("skip-read-failed:{}", f.key()), format!("skip_frames read fails with unknown events present: {}", f.describe())))?;
			start_eq(&s0.start, &s1.start, true).map_err(|m| e("skip-start-differs", m))?;
			if s0.end != s1.end || s0.metadata != s1.metadata {
				return Err(e("skip-differs", "skip_frames gives a different end/metadata when unknown events are present".into()));
			}
			if s1.hash.as_deref() != Some(crate::checks::c02::expected_hash(&input[..rg.consumed]).as_str()) {
				return Err(e("skip-hash", "hash with skip_frames is not the digest of the file with its unknown events".into()));
			}
		}
		Ok(fnv_mix(rg.unknown_events as u64, g.frames.len() as u64))
	});
	match r {
		Ok(Err((k, m))) if k == "QUIRK" => {
			out.obs = 9;
			out.viol = Some(Viol { key: "C08|unknown_events|unknown-event-after-first-of-two-game-ends|double-end-quirk-lost".into(), msg: m });
		}
		r => finish_out(&mut out, "unknown_events", p, r),
	}
	out
}

pub fn finish_out(out: &mut Out, oracle: &str, p: &P, r: Result<Result<u64, (String, String)>, Panicked>) {
	match r {
		Ok(Ok(o)) => out.obs = o,
		Ok(Err((k, m))) => {
			out.obs = 7;
			out.viol = viol(oracle, p, &k, m)
		}
		Err(pn) => {
			out.obs = 8;
			out.viol = viol(oracle, p, &pn.key(), format!("panic: {}", pn.msg))
		}
	}
}

/// Cut every known event back to the newest known layout (3.16), keeping the version bytes.
fn unextend(b: &[u8]) -> Vec<u8> {
	let raw_len = u32::from_be_bytes([b[11], b[12], b[13], b[14]]) as usize;
	let tsz = b[16] as usize;
	let mut sizes = [0usize; 256];
	let mut table: Vec<(u8, u16)> = vec![];
	let known_size = |code: u8| -> Option<usize> {
		Some(match code {
			0x36 => 760,
			0x37 => spec::frame_payload_size(Kind::Pre, spec::MAX),
			0x38 => spec::frame_payload_size(Kind::Post, spec::MAX),
			0x39 => 6,
			0x3A => spec::frame_payload_size(Kind::Start, spec::MAX),
			0x3B => spec::frame_payload_size(Kind::Item, spec::MAX),
			0x3C => spec::frame_payload_size(Kind::End, spec::MAX),
			_ => return None,
		})
	};
	for i in 0..(tsz - 1) / 3 {
		let o = 17 + 3 * i;
		let sz = u16::from_be_bytes([b[o + 1], b[o + 2]]);
		sizes[b[o] as usize] = sz as usize;
		table.push((b[o], known_size(b[o]).map_or(sz, |k| k.min(sz as usize) as u16)));
	}
	let mut raw: Vec<u8> = vec![0x35, (table.len() * 3 + 1) as u8];
	for (c, s) in &table {
		raw.push(*c);
		raw.extend_from_slice(&s.to_be_bytes());
	}
	let mut pos = 15 + 1 + tsz;
	let raw_end = 15 + raw_len;
	while pos < raw_end {
		let code = b[pos];
		let sz = sizes[code as usize];
		let keep = known_size(code).map_or(sz, |k| k.min(sz));
		raw.extend_from_slice(&b[pos..pos + 1 + keep]);
		pos += 1 + sz;
	}
	let mut out = SIGNATURE.to_vec();
	out.extend_from_slice(&(raw.len() as u32).to_be_bytes());
	out.extend_from_slice(&raw);
	out.extend_from_slice(&b[raw_end..]);
	out
}

pub fn o_extended(input: &[u8], p: &P) -> Out {
	let mut out = Out { transitions: 1, nontrivial: true, ..Default::default() };
	let base = unextend(input);
	let rgb = domain(&base, "C08 extended (base)");
	out.transitions = rgb.events as u64;
	out.states = rgb.state_keys.clone();
	let r = catch(|| -> Result<u64, (String, String)> {
		let e = |k: &str, m: String| (k.to_string(), m);
		let g0 = read_slp(&base, false, false).map_err(|f| e("base-read-failed", format!("the un-extended replay does not read: {}", f.describe())))?;
		let g = read_slp(input, false, false).map_err(|f| e(&format!("read-failed:{}", f.key()), format!("a newer-version replay with longer payloads does not read: {}", f.describe())))?;
		frames_equal(&g0.frames, &g.frames).map_err(|m| e("frames-differ", format!("frame data differs from the un-extended replay: {}", m)))?;
		compare_frames(&g.frames, &rgb, rgb.rows.len(), true).map_err(|(k, m)| e(&format!("model-{}", k), m))?;
		// start / end: everything but the raw bytes must agree; the raw bytes carry the extra tail
		start_eq(&g0.start, &g.start, false).map_err(|m| e("start-differs", format!("Game Start fields differ from the un-extended replay: {}", m)))?;
		match (&g0.end, &g.end) {
			(None, None) => {}
			(Some(a), Some(b)) => {
				let mut a = a.clone();
				a.bytes = b.bytes.clone();
				if &a != b {
					return Err(e("end-differs", "Game End fields differ from the un-extended replay".into()));
				}
			}
			_ => return Err(e("end-differs", "Game End presence differs".into())),
		}
		// raw blocks as they are in the file
		let rg = refparse(input).map_err(|m| e("model", m))?;
		if g.start.bytes.0 != rg.start_block {
			return Err(e("start-bytes", "start.bytes is not the (extended) raw Game Start block".into()));
		}
		if g.end.as_ref().map(|x| &x.bytes.0) != rg.end_block.as_ref() {
			return Err(e("end-bytes", "end.bytes is not the (extended) raw Game End block".into()));
		}
		if g0.metadata != g.metadata || g0.gecko_codes != g.gecko_codes {
			return Err(e("meta-differs", "metadata or gecko codes differ from the un-extended replay".into()));
		}
		if g0.quirks.map_or(false, |q| q.double_game_end) != g.quirks.map_or(false, |q| q.double_game_end) {
			return Err(e("quirks-differ", format!("the doubled Game End is recognised in the un-extended replay ({:?}) but not with longer payloads ({:?})", g0.quirks, g.quirks)));
		}
		// the skip_frames path takes the Game End size from the table as well
		if g.end.is_some() {
			let gs = read_slp(input, true, p.hash).map_err(|f| e(&format!("skip-read-failed:{}", f.key()), format!("a newer-version replay with longer payloads does not read with skip_frames: {}", f.describe())))?;
			start_eq(&g.start, &gs.start, true).map_err(|m| e("skip-start-differs", m))?;
			if gs.end != g.end || gs.metadata != g.metadata {
				return Err(e("skip-end-differs", "skip_frames gives a different end/metadata for a newer-version replay".into()));
			}
		}
		Ok(fnv_mix(g.frames.len() as u64, xx(&g.start.bytes.0)))
	});
	finish_out(&mut out, "extended_payloads", p, r);
	out
}

pub const UNKNOWN: [(u8, u16); 6] = [(0x3E, 1), (0x40, 2), (0x11, 600), (0xFF, 4), (0x00, 7), (0x7E, 65535)];

pub fn unknown_event(k: usize, serial: usize) -> Ev {
	let (code, size) = UNKNOWN[k];
	Ev { code, payload: (0..size as usize).map(|i| fill_byte(Fill::B, 0x30 + serial, i)).collect(), tag: Tag::Unknown }
}

pub fn bases(quick: bool) -> Vec<AbsReplay> {
	let mut out = vec![];
	let versions: Vec<(u8, u8)> = if quick { vec![(0, 1), (2, 0), (2, 2), (3, 0), (3, 7), (3, 16)] } else { spec::v_rep() };
	for v in versions {
		let mut a = base_replay(v, vec![pc(0, false), PortCfg { port: 2, ics: true, ptype: 1 }], 2);
		a.frames[1].present[1][1] = false;
		if spec::regime(v) == 2 {
			a.frames[0].items = 1;
		}
		if spec::gte(v, (3, 3)) {
			a.gecko = Gecko::Live { live: 700, nonzero_pad: true };
		}
		out.push(a.clone());
		if quick && v == (3, 16) {
			let mut b = a.clone();
			b.ends = 2;
			out.push(b);
		}
		if quick && (v == (3, 16) || v == (2, 0)) {
			// no Game End: an unknown event can then be the very last thing in the raw element
			let mut b = a.clone();
			b.ends = 0;
			out.push(b);
		}
		if !quick {
			let mut b = a.clone();
			b.ends = 2;
			out.push(b);
			let mut b0 = a.clone();
			b0.ends = 0;
			out.push(b0);
			let mut c = a.clone();
			c.metadata = None;
			if spec::regime(v) > 0 {
				c.frames.push(AbsFrame { id: -122, present: vec![[true, true]; 2], items: 0 });
			}
			out.push(c);
		}
	}
	out
}

pub fn with_unknown(doc: &Doc, ins: &[(usize, usize)]) -> Vec<u8> {
	let mut d = doc.clone();
	for (k, _) in ins {
		let (code, size) = UNKNOWN[*k];
		if d.size_of(code).is_none() {
			d.table.push((code, size));
		}
	}
	// insert from the highest boundary down so indices stay valid; equal boundaries keep order
	let mut order: Vec<(usize, usize, usize)> = ins.iter().enumerate().map(|(n, (k, at))| (*at, n, *k)).collect();
	order.sort_by(|a, b| b.0.cmp(&a.0).then(b.1.cmp(&a.1)));
	for (at, n, k) in order {
		d.events.insert(at, unknown_event(k, n));
	}
	d.assemble()
}

pub fn run() {
	let cx = ctx();
	cx.note("rule", json!("(a) replays of every framing regime (with gecko blocks where they exist) x unknown events (code,size) in {(0x3E,1),(0x40,2),(0x11,600),(0xFF,4),(0x00,7),(0x7E,65535)} declared in the payload table and inserted at every event boundary after Game Start (between splitter blocks, inside frames, before/after Game End): all single insertions, all pairs (multisets; same or different boundary), and a run of three; plus EVERY one of the 246 undefined codes singly at three boundaries; plus EVERY payload size 1..=1100 and every multiple of 512 with its two neighbours up to 65,024, and 65,535, for one undefined code (two bases); plus unknown events cut into Message Splitter blocks (1, 512, 700 bytes) at four boundaries; bases with one, two and no Game End; payload tables declaring up to 74 undefined codes; the debug option next to unknown events; the game must equal the one read from the same replay with the unknown events removed, and the model. (b) versions {3.17, 3.255, 4.0, 255.255} with 3.16 content and +1/+3/+17 trailing bytes on each known event kind alone and on all together (Game Start and Game End included), table updated: every known field equals the un-extended parse; start.bytes/end.bytes carry the extra bytes. Non-trivial = contains at least one unknown event / extended payload"));
	cx.note("exhaustive", json!(true));
	cx.note("assumptions", json!(["unknown = an event code outside the 10 codes the format defines up to 3.16"]));
	let mut jobs: Vec<(Arc<Doc>, String, Vec<(usize, usize)>)> = vec![];
	for a in bases(cx.quick()) {
		let doc = Arc::new(record(&a).doc);
		let label = a.describe();
		let nb = doc.events.len(); // boundaries 1..=nb (after Game Start at index 0)
		let bounds: Vec<usize> = (1..=nb).collect();
		for at in &bounds {
			for k in 0..UNKNOWN.len() {
				jobs.push((doc.clone(), label.clone(), vec![(k, *at)]));
			}
		}
		// pairs: every multiset of two (kind, boundary); quick: kinds {0, 2}
		// the 65,535-byte event (largest size the table can declare) is inserted singly only
		let kinds: Vec<usize> = if cx.quick() { vec![0, 2] } else { (0..UNKNOWN.len() - 1).collect() };
		for (i, a1) in bounds.iter().enumerate() {
			for a2 in &bounds[i..] {
				for k1 in &kinds {
					for k2 in &kinds {
						if a1 == a2 && k2 < k1 {
							continue;
						}
						jobs.push((doc.clone(), label.clone(), vec![(*k1, *a1), (*k2, *a2)]));
					}
				}
			}
		}
		for at in &bounds {
			jobs.push((doc.clone(), label.clone(), vec![(0, *at), (3, *at), (0, *at)]));
			if !cx.quick() {
				for a2 in &bounds {
					jobs.push((doc.clone(), label.clone(), vec![(1, *at), (2, *a2), (4, nb)]));
				}
			}
		}
	}
	for a in crate::gen::universe(cx.quick()) {
		let doc = Arc::new(record(&a).doc);
		let label = a.describe();
		let nb = doc.events.len();
		for (k, at) in [(0usize, 1usize), (2, (nb + 1) / 2), (3, nb)] {
			jobs.push((doc.clone(), label.clone(), vec![(k, at.max(1))]));
		}
	}
	// EVERY code the format does not define (246 of them), one at a time: a table keyed by anything less than
	// the full code byte, or a code that aliases a known one in some bits, shows here
	let mut code_jobs: Vec<(Arc<Doc>, String, u8, u16, usize)> = vec![];
	for a in bases(true) {
		let doc = Arc::new(record(&a).doc);
		let nb = doc.events.len();
		for code in 0..=255u8 {
			if matches!(code, 0x10 | 0x35..=0x3D) {
				continue;
			}
			for (at, size) in [(1usize, 3u16), ((nb + 1) / 2, 5), (nb, 2)] {
				code_jobs.push((doc.clone(), a.describe(), code, size, at.max(1)));
			}
		}
	}
	// EVERY payload size 1..=1100 (every residue modulo 512, twice, and modulo 256, four times) and every multiple of
	// 512 (and its two neighbours) up to the largest a table entry can declare, for one undefined code at the middle
	// and last boundary: a reader that skips in blocks of any size up to 1 KiB, or of 512 x k, shows here
	{
		let bs = bases(true);
		let picks: Vec<&AbsReplay> = vec![&bs[0], &bs[bs.len() - 1]];
		let mut sizes: Vec<u16> = (1..=1100u16).collect();
		for k in 3..=127u32 {
			for d in [-1i32, 0, 1] {
				sizes.push((k as i32 * 512 + d) as u16);
			}
		}
		sizes.push(65535);
		for (bi, a) in picks.into_iter().enumerate() {
			let doc = Arc::new(record(a).doc);
			let nb = doc.events.len();
			for (si, size) in sizes.iter().enumerate() {
				if cx.quick() && *size > 1100 && bi == 1 && si % 3 != 0 {
					continue;
				}
				let at = if (si + bi) % 2 == 0 { (nb + 1) / 2 } else { nb };
				code_jobs.push((doc.clone(), a.describe(), if bi == 0 { 0x42 } else { 0x0F }, *size, at.max(1)));
			}
		}
	}
	// payload tables with many entries: 33 / 43 / 60 / 74 undefined codes declared (a table can hold 84 entries),
	// the first three of them occurring once each
	let mut table_jobs: Vec<(Vec<u8>, String)> = vec![];
	for a in bases(true).into_iter().take(3) {
		let doc = record(&a).doc;
		for n in [33usize, 43, 60, 74] {
			let mut d = doc.clone();
			let mut added = vec![];
			let mut code = 0x40u8;
			while added.len() < n {
				if d.size_of(code).is_none() && !matches!(code, 0x10 | 0x35..=0x3D) {
					d.table.push((code, 1 + (added.len() % 5) as u16));
					added.push(code);
				}
				code = code.wrapping_add(1);
			}
			let nb = d.events.len();
			for (k, c) in added.iter().take(3).enumerate() {
				let size = d.size_of(*c).unwrap() as usize;
				d.events.insert(nb - k.min(nb - 1), Ev { code: *c, payload: vec![0xAB; size], tag: Tag::Unknown });
			}
			table_jobs.push((d.assemble(), format!("{} + {} undefined codes in the payload table", a.describe(), n)));
		}
	}
	par_each(table_jobs.into_iter(), |(bytes, label), local| {
		let bytes = Arc::new(bytes);
		let p = P { class: "big-table", ..Default::default() };
		eval_case("unknown_events", o_unknown, &bytes, &p, || label, local);
	});
	cx.note("all_unknown_codes_cases", json!(code_jobs.len()));
	par_each(code_jobs.into_iter(), |(doc, label, code, size, at), local| {
		let mut d = (*doc).clone();
		if d.size_of(code).is_none() {
			d.table.push((code, size));
		}
		d.events.insert(at, Ev { code, payload: (0..size as usize).map(|i| fill_byte(Fill::B, 0x51, i)).collect(), tag: Tag::Unknown });
		let bytes = Arc::new(d.assemble());
		let p = P { class: "any-code", ..Default::default() };
		eval_case("unknown_events", o_unknown, &bytes, &p, || format!("{} + unknown event code {:#04x} ({} bytes) at boundary {}", label, code, size, at), local);
	});
	let wrapped_jobs = wrapped_unknown_docs();
	cx.note("splitter_wrapped_unknown_cases", json!(wrapped_jobs.len()));
	par_each(wrapped_jobs.into_iter(), |(bytes, label), local| {
		let bytes = Arc::new(bytes);
		let p = P { class: "wrapped", ..Default::default() };
		eval_case("unknown_events", o_unknown, &bytes, &p, || label, local);
	});
	cx.note("insertion_cases", json!(jobs.len()));
	par_each(jobs.into_iter(), |(doc, label, ins), local| {
		let bytes = Arc::new(with_unknown(&doc, &ins));
		let class: &'static str = match ins.len() {
			1 => "single",
			2 => "pair",
			_ => "triple",
		};
		let p = P { class, ..Default::default() };
		eval_case("unknown_events", o_unknown, &bytes, &p, || format!("{} + unknown {:?}", label, ins), local);
	});
	// (b) newer versions with longer payloads
	let mut jobs2: Vec<(Vec<u8>, String)> = vec![];
	for ver in [(3u8, 17u8), (3, 255), (4, 0), (255, 255)] {
		for fill in [Fill::A, Fill::Ones] {
			let mut a = base_replay((3, 16), vec![pc(0, false), PortCfg { port: 2, ics: true, ptype: 1 }], 3);
			a.frames[1].present[1][1] = false;
			a.frames[0].items = 2;
			a.frames[2].id = -122; // rollback
			a.gecko = Gecko::Live { live: 700, nonzero_pad: true };
			a.fill = fill;
			for ends in [1u8, 2] {
				a.ends = ends;
				let mut rec = record(&a);
				// stamp the newer version into the Game Start block
				rec.doc.events[0].payload[0] = ver.0;
				rec.doc.events[0].payload[1] = ver.1;
				let codes = [0x36u8, 0x37, 0x38, 0x39, 0x3A, 0x3B, 0x3C];
				for extra in [1usize, 3, 17] {
					let mut sets: Vec<Vec<u8>> = codes.iter().map(|c| vec![*c]).collect();
					sets.push(codes.to_vec());
					sets.push(vec![]);
					for set in sets {
						let mut d = rec.doc.clone();
						for t in d.table.iter_mut() {
							if set.contains(&t.0) {
								t.1 += extra as u16;
							}
						}
						for (n, ev) in d.events.iter_mut().enumerate() {
							if set.contains(&ev.code) {
								for k in 0..extra {
									// a doubled Game End is a verbatim copy: both get the same tail
									let serial = if ev.code == 0x39 { 0x39 } else { n };
									ev.payload.push(fill_byte(Fill::B, serial, 200 + k) | 0x80);
								}
							}
						}
						jobs2.push((d.assemble(), format!("v{}.{} content 3.16 fill={:?} ends={} +{} bytes on {:02x?}", ver.0, ver.1, fill, ends, extra, set)));
					}
				}
			}
		}
	}
	// the largest payload size a table entry can declare (65,535), on Game Start / Game End / Post
	for code in [0x36u8, 0x39, 0x38] {
		let mut a = base_replay((3, 16), vec![pc(0, false), PortCfg { port: 2, ics: true, ptype: 1 }], 2);
		a.frames[0].items = 1;
		a.ends = if code == 0x39 { 2 } else { 1 };
		let mut rec = record(&a);
		rec.doc.events[0].payload[0] = 3;
		rec.doc.events[0].payload[1] = 200;
		let mut d = rec.doc.clone();
		for t in d.table.iter_mut() {
			if t.0 == code {
				t.1 = 65535;
			}
		}
		for ev in d.events.iter_mut() {
			if ev.code == code {
				let n = ev.payload.len();
				ev.payload.extend((n..65535).map(|k| (k % 251) as u8 | 1));
			}
		}
		jobs2.push((d.assemble(), format!("v3.200 content 3.16, event {:#04x} padded to 65535 bytes", code)));
	}
	cx.note("extended_payload_cases", json!(jobs2.len()));
	par_each(jobs2.into_iter(), |(bytes, label), local| {
		let bytes = Arc::new(bytes);
		let p = P { class: "newer-version", ..Default::default() };
		eval_case("extended_payloads", o_extended, &bytes, &p, || label, local);
	});
	finish(cx);
}
