pub mod c01;

use crate::util::Oracle;

pub fn oracle_by_name(name: &str) -> Option<Oracle> {
	let all: &[&[(&str, Oracle)]] = &[c01::ORACLES];
	for set in all {
		for (n, f) in set.iter() {
			if *n == name {
				return Some(*f);
			}
		}
	}
	None
}

pub fn run(prop: &str) -> bool {
	match prop {
		"C01" => c01::run(),
		_ => return false,
	}
	true
}

pub fn level(prop: &str) -> &'static str {
	match prop {
		"C06" | "C07" => "fault_enumeration",
		_ => "model_checking",
	}
}
