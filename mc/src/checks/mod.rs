pub mod c01;
pub mod c02;
pub mod c03;
pub mod c04;
pub mod c05;
pub mod c06;
pub mod c07;
pub mod c08;
pub mod c09;
pub mod c10;
pub mod c11;
pub mod c12;
pub mod c13;
pub mod c14;
pub mod c15;
pub mod c16;
pub mod c17;
pub mod c18;
pub mod c19;
pub mod c20;

use crate::util::Oracle;

pub fn oracle_by_name(name: &str) -> Option<Oracle> {
	let all: &[&[(&str, Oracle)]] = &[c01::ORACLES, c02::ORACLES, c04::ORACLES, c05::ORACLES, c06::ORACLES, c07::ORACLES, c08::ORACLES, c09::ORACLES, c10::ORACLES, c11::ORACLES, c14::ORACLES, c15::ORACLES, c16::ORACLES, c17::ORACLES, c18::ORACLES, c19::ORACLES, c20::ORACLES, crate::ops::ORACLES];
	for set in all {
		for (n, f) in set.iter() {
			if *n == name {
				return Some(*f);
			}
		}
	}
	None
}

pub fn run(prop: &str) -> bool {
	match prop {
		"C01" => c01::run(),
		"C02" => c02::run(),
		"C03" => c03::run(),
		"C04" => c04::run(),
		"C14" => c14::run(),
		"C05" => c05::run(),
		"C06" => c06::run(),
		"C07" => c07::run(),
		"C08" => c08::run(),
		"C17" => c17::run(),
		"C09" => c09::run(),
		"C10" => c10::run(),
		"C15" => c15::run(),
		"C16" => c16::run(),
		"C18" => c18::run(),
		"C19" => c19::run(),
		"C20" => c20::run(),
		"C11" => c11::run(),
		"C12" => c12::run(),
		"C13" => c13::run(),
		_ => return false,
	}
	true
}

pub fn level(prop: &str) -> &'static str {
	match prop {
		"C06" | "C07" => "fault_enumeration",
		_ => "model_checking",
	}
}
