//! C05: Game Start / Game End fields equal the spec-offset values of the raw blocks.

use std::sync::Arc;

use encoding_rs::SHIFT_JIS;
use serde_json::{json, Value};

use peppi::game::immutable::Game;

use crate::checks::c08::finish_out;
use crate::ops::*;
use crate::rec::*;
use crate::spec::{self, gs};
use crate::util::*;

pub const ORACLES: &[(&str, Oracle)] = &[("start_end", o_start_end), ("start_end_options", o_start_end_options)];

/// Game Start and Game End of a replay WITH frames, under every option combination: the same blocks and
/// the same decoded values as the plain read (whose values the block-level oracle ties to the spec offsets).
pub fn o_start_end_options(input: &[u8], p: &P) -> Out {
	let rg = crate::common::domain(input, "C05");
	let mut out = crate::common::out_from(&rg);
	out.nontrivial = true;
	let r = catch(|| -> Result<u64, (String, String)> {
		let e = |k: &str, m: String| (k.to_string(), m);
		let base = read_slp(input, false, false).map_err(|f| e(&format!("read-failed:{}", f.key()), f.describe()))?;
		if base.start.bytes.0 != rg.start_block {
			return Err(e("start-bytes", "start.bytes differs from the raw Game Start block".into()));
		}
		if base.end.as_ref().map(|x| &x.bytes.0) != rg.end_block.as_ref() {
			return Err(e("end-bytes", "end.bytes differs from the raw Game End block (or presence differs)".into()));
		}
		for (skip, hash) in [(false, true), (true, false), (true, true)] {
			if skip && !(rg.n_ends == 1 && rg.junk_after_end == 0) {
				continue;
			}
			let g = read_slp(input, skip, hash).map_err(|f| e(&format!("read-failed-with-options:{}", f.key()), format!("reading with skip_frames={} compute_hash={} failed: {}", skip, hash, f.describe())))?;
			start_eq(&base.start, &g.start, true).map_err(|m| e("start-differs", format!("Game Start read with skip_frames={} compute_hash={} differs: {}", skip, hash, m)))?;
			if g.end != base.end {
				return Err(e("end-differs", format!("Game End read with skip_frames={} compute_hash={} differs", skip, hash)));
			}
		}
		Ok(xx(&rg.start_block))
	});
	finish_out(&mut out, "start_end_options", p, r);
	out
}

#[derive(Debug, Clone, PartialEq)]
pub struct RPlayer {
	port: u8,
	character: u8,
	ptype: u8,
	stocks: u8,
	costume: u8,
	team: Option<(u8, u8)>, // color, shade
	handicap: u8,
	bitfield: u8,
	cpu_level: Option<u8>,
	off: u32,
	def: u32,
	scale: u32,
	ucf: Option<(u32, u32)>,
	name_tag: Option<String>,
	netplay: Option<(String, String, Option<Option<String>>)>, // suid: None = absent; Some(None) = open zone (no NUL)
}

#[derive(Debug, Clone, PartialEq)]
pub struct RStart {
	ver: (u8, u8, u8),
	bitfield: [u8; 4],
	bombs: bool,
	teams: bool,
	item_freq: i8,
	sd: i8,
	stage: u16,
	timer: u32,
	item_bf: [u8; 5],
	dmg: u32,
	players: Vec<RPlayer>,
	seed: u32,
	is_pal: Option<bool>,
	frozen: Option<bool>,
	scene: Option<(u8, u8)>, // minor, major
	language: Option<u8>,
	match_: Option<(Option<String>, u32, u32)>,
}

#[derive(Debug, Clone, PartialEq)]
pub enum Expect<T> {
	Ok(T),
	/// the block holds a value that has no representation: reading must fail
	Err(String),
	/// garbage in data of an unoccupied port: Err, or Ok with this value
	Either(T, String),
}

fn be32(b: &[u8], o: usize) -> u32 {
	u32::from_be_bytes([b[o], b[o + 1], b[o + 2], b[o + 3]])
}

fn sjis(b: &[u8]) -> Option<String> {
	let end = b.iter().position(|x| *x == 0).unwrap_or(b.len());
	SHIFT_JIS.decode_without_bom_handling_and_without_replacement(&b[..end]).map(|c| c.to_string())
}

/// NUL-terminated UTF-8 in a fixed field whose last byte is reserved for the terminator.
/// Ok(None) = no terminator inside the field: the statement leaves the outcome open.
fn cstr(b: &[u8]) -> Result<Option<String>, ()> {
	match b.iter().position(|x| *x == 0) {
		Some(end) => std::str::from_utf8(&b[..end]).map(|s| Some(s.to_string())).map_err(|_| ()),
		None => Ok(None),
	}
}

/// Independent decode of a Game Start block by the SPEC offsets.
pub fn ref_start(b: &[u8]) -> Expect<RStart> {
	let n = b.len();
	let mut hard_err: Option<String> = None;
	let mut soft_err: Option<String> = None;
	let teams = b[gs::TEAMS] != 0;
	let mut players = vec![];
	for p in 0..4usize {
		let o = gs::PLAYERS + p * gs::PLAYER_STRIDE;
		let ptype = b[o + gs::pl::TYPE];
		let occupied = ptype <= 2;
		let mut note = |msg: String| {
			if occupied {
				hard_err.get_or_insert(msg);
			} else {
				soft_err.get_or_insert(msg);
			}
		};
		let ucf = if n >= gs::UCF + 32 {
			let d = be32(b, gs::UCF + 8 * p);
			let s = be32(b, gs::UCF + 8 * p + 4);
			if d > 2 {
				note(format!("port {} dash-back value {} has no representation", p, d));
			}
			if s > 2 {
				note(format!("port {} shield-drop value {} has no representation", p, s));
			}
			Some((d, s))
		} else {
			None
		};
		let name_tag = if n >= gs::NAME_TAG + 64 {
			let f = &b[gs::NAME_TAG + 16 * p..gs::NAME_TAG + 16 * p + 16];
			match sjis(f) {
				Some(s) => Some(s),
				None => {
					note(format!("port {} name tag is not valid Shift-JIS", p));
					Some(String::new())
				}
			}
		} else {
			None
		};
		let netplay = if n >= gs::CONNECT_CODE + 40 {
			let nf = &b[gs::DISPLAY_NAME + 31 * p..gs::DISPLAY_NAME + 31 * p + 31];
			let cf = &b[gs::CONNECT_CODE + 10 * p..gs::CONNECT_CODE + 10 * p + 10];
			let name = sjis(nf).unwrap_or_else(|| {
				note(format!("port {} display name is not valid Shift-JIS", p));
				String::new()
			});
			let code = sjis(cf).unwrap_or_else(|| {
				note(format!("port {} connect code is not valid Shift-JIS", p));
				String::new()
			});
			let suid = if n >= gs::SUID + 116 {
				match cstr(&b[gs::SUID + 29 * p..gs::SUID + 29 * p + 29]) {
					Ok(s) => Some(s),
					Err(()) => {
						note(format!("port {} UID is not valid UTF-8", p));
						Some(None)
					}
				}
			} else {
				None
			};
			Some((name, code, suid))
		} else {
			None
		};
		if !occupied {
			continue;
		}
		players.push(RPlayer {
			port: p as u8,
			character: b[o + gs::pl::CHARACTER],
			ptype,
			stocks: b[o + gs::pl::STOCKS],
			costume: b[o + gs::pl::COSTUME],
			team: if teams { Some((b[o + gs::pl::TEAM_COLOR], b[o + gs::pl::TEAM_SHADE])) } else { None },
			handicap: b[o + gs::pl::HANDICAP],
			bitfield: b[o + gs::pl::BITFIELD],
			cpu_level: if ptype == 1 { Some(b[o + gs::pl::CPU_LEVEL]) } else { None },
			off: be32(b, o + gs::pl::OFFENSE),
			def: be32(b, o + gs::pl::DEFENSE),
			scale: be32(b, o + gs::pl::SCALE),
			ucf,
			name_tag,
			netplay,
		});
	}
	let language = if n > gs::LANGUAGE {
		if b[gs::LANGUAGE] > 1 {
			hard_err.get_or_insert(format!("language value {} has no representation", b[gs::LANGUAGE]));
		}
		Some(b[gs::LANGUAGE])
	} else {
		None
	};
	let match_ = if n >= gs::TIEBREAKER + 4 {
		let id = match cstr(&b[gs::MATCH_ID..gs::MATCH_ID + 51]) {
			Ok(s) => s,
			Err(()) => {
				hard_err.get_or_insert("match id is not valid UTF-8".into());
				None
			}
		};
		Some((id, be32(b, gs::GAME_NUMBER), be32(b, gs::TIEBREAKER)))
	} else {
		None
	};
	let s = RStart {
		ver: (b[0], b[1], b[2]),
		bitfield: [b[4], b[5], b[6], b[7]],
		bombs: b[gs::BOMBS] != 0,
		teams,
		item_freq: b[gs::ITEM_FREQ] as i8,
		sd: b[gs::SD_SCORE] as i8,
		stage: u16::from_be_bytes([b[gs::STAGE], b[gs::STAGE + 1]]),
		timer: be32(b, gs::TIMER),
		item_bf: [b[gs::ITEM_BITFIELD], b[gs::ITEM_BITFIELD + 1], b[gs::ITEM_BITFIELD + 2], b[gs::ITEM_BITFIELD + 3], b[gs::ITEM_BITFIELD + 4]],
		dmg: be32(b, gs::DAMAGE_RATIO),
		players,
		seed: be32(b, gs::SEED),
		is_pal: if n > gs::PAL { Some(b[gs::PAL] != 0) } else { None },
		frozen: if n > gs::FROZEN_PS { Some(b[gs::FROZEN_PS] != 0) } else { None },
		scene: if n > gs::SCENE_MAJOR { Some((b[gs::SCENE_MINOR], b[gs::SCENE_MAJOR])) } else { None },
		language,
		match_,
	};
	match (hard_err, soft_err) {
		(Some(e), _) => Expect::Err(e),
		(None, Some(e)) => Expect::Either(s, e),
		(None, None) => Expect::Ok(s),
	}
}

fn f32j(bits: u32) -> Value {
	serde_json::to_value(f32::from_bits(bits)).unwrap()
}

fn port_name(p: u8) -> String {
	format!("P{}", p + 1)
}

fn fix_name(v: Option<u32>) -> Value {
	match v {
		Some(0) | None => Value::Null,
		Some(1) => json!("Ucf"),
		Some(2) => json!("Arduino"),
		Some(_) => json!("?"),
	}
}

/// the JSON rendering the reference decode implies
fn start_json(s: &RStart, actual: &Value) -> Value {
	let mut m = serde_json::Map::new();
	m.insert("slippi".into(), json!({"version": [s.ver.0, s.ver.1, s.ver.2]}));
	m.insert("bitfield".into(), json!(s.bitfield));
	m.insert("is_raining_bombs".into(), json!(s.bombs));
	m.insert("is_teams".into(), json!(s.teams));
	m.insert("item_spawn_frequency".into(), json!(s.item_freq));
	m.insert("self_destruct_score".into(), json!(s.sd));
	m.insert("stage".into(), json!(s.stage));
	m.insert("timer".into(), json!(s.timer));
	m.insert("item_spawn_bitfield".into(), json!(s.item_bf));
	m.insert("damage_ratio".into(), f32j(s.dmg));
	let mut ps = vec![];
	for (i, p) in s.players.iter().enumerate() {
		let mut pm = serde_json::Map::new();
		pm.insert("port".into(), json!(port_name(p.port)));
		pm.insert("character".into(), json!(p.character));
		pm.insert("type".into(), json!(["Human", "Cpu", "Demo"][p.ptype as usize]));
		pm.insert("stocks".into(), json!(p.stocks));
		pm.insert("costume".into(), json!(p.costume));
		pm.insert("team".into(), p.team.map_or(Value::Null, |(c, sh)| json!({"color": c, "shade": sh})));
		pm.insert("handicap".into(), json!(p.handicap));
		pm.insert("bitfield".into(), json!(p.bitfield));
		pm.insert("cpu_level".into(), p.cpu_level.map_or(Value::Null, |c| json!(c)));
		pm.insert("offense_ratio".into(), f32j(p.off));
		pm.insert("defense_ratio".into(), f32j(p.def));
		pm.insert("model_scale".into(), f32j(p.scale));
		if let Some((d, sd)) = p.ucf {
			pm.insert("ucf".into(), json!({"dash_back": fix_name(Some(d)), "shield_drop": fix_name(Some(sd))}));
		}
		if let Some(t) = &p.name_tag {
			pm.insert("name_tag".into(), json!(t));
		}
		if let Some((name, code, suid)) = &p.netplay {
			let mut nm = serde_json::Map::new();
			nm.insert("name".into(), json!(name));
			nm.insert("code".into(), json!(code));
			match suid {
				None => {}
				Some(Some(s)) => {
					nm.insert("suid".into(), json!(s));
				}
				Some(None) => {
					// open zone: take whatever the implementation rendered
					if let Some(x) = actual["players"][i]["netplay"].get("suid") {
						nm.insert("suid".into(), x.clone());
					}
				}
			}
			pm.insert("netplay".into(), Value::Object(nm));
		}
		ps.push(Value::Object(pm));
	}
	m.insert("players".into(), Value::Array(ps));
	m.insert("random_seed".into(), json!(s.seed));
	if let Some(x) = s.is_pal {
		m.insert("is_pal".into(), json!(x));
	}
	if let Some(x) = s.frozen {
		m.insert("is_frozen_ps".into(), json!(x));
	}
	if let Some((mi, ma)) = s.scene {
		m.insert("scene".into(), json!({"minor": mi, "major": ma}));
	}
	if let Some(l) = s.language {
		m.insert("language".into(), json!(["Japanese", "English"][l.min(1) as usize]));
	}
	if let Some((id, g, t)) = &s.match_ {
		let idv = match id {
			Some(s) => json!(s),
			None => actual["match"]["id"].clone(),
		};
		m.insert("match".into(), json!({"id": idv, "game": g, "tiebreaker": t}));
	}
	Value::Object(m)
}

fn compare_start(g: &Game, s: &RStart) -> Result<(), String> {
	let a = &g.start;
	let v = a.slippi.version;
	macro_rules! chk {
		($what:expr, $got:expr, $want:expr) => {
			if $got != $want {
				return Err(format!("start.{}: {:?}, but the raw block says {:?}", $what, $got, $want));
			}
		};
	}
	chk!("slippi.version", (v.0, v.1, v.2), s.ver);
	chk!("bitfield", a.bitfield, s.bitfield);
	chk!("is_raining_bombs", a.is_raining_bombs, s.bombs);
	chk!("is_teams", a.is_teams, s.teams);
	chk!("item_spawn_frequency", a.item_spawn_frequency, s.item_freq);
	chk!("self_destruct_score", a.self_destruct_score, s.sd);
	chk!("stage", a.stage, s.stage);
	chk!("timer", a.timer, s.timer);
	chk!("item_spawn_bitfield", a.item_spawn_bitfield, s.item_bf);
	chk!("damage_ratio", a.damage_ratio.to_bits(), s.dmg);
	chk!("random_seed", a.random_seed, s.seed);
	chk!("is_pal", a.is_pal, s.is_pal);
	chk!("is_frozen_ps", a.is_frozen_ps, s.frozen);
	chk!("scene", a.scene.map(|x| (x.minor, x.major)), s.scene);
	chk!("language", a.language.map(|l| l as u8), s.language);
	match (&a.r#match, &s.match_) {
		(None, None) => {}
		(Some(m), Some((id, g, t))) => {
			if let Some(id) = id {
				chk!("match.id", &m.id, id);
			}
			chk!("match.game", m.game, *g);
			chk!("match.tiebreaker", m.tiebreaker, *t);
		}
		_ => return Err("start.match presence differs from the block length".into()),
	}
	chk!("players.len", a.players.len(), s.players.len());
	for (x, y) in a.players.iter().zip(&s.players) {
		let w = format!("players[P{}]", y.port + 1);
		chk!(format!("{}.port", w), x.port as u8, y.port);
		chk!(format!("{}.character", w), x.character, y.character);
		chk!(format!("{}.type", w), x.r#type as u8, y.ptype);
		chk!(format!("{}.stocks", w), x.stocks, y.stocks);
		chk!(format!("{}.costume", w), x.costume, y.costume);
		chk!(format!("{}.team", w), x.team.map(|t| (t.color, t.shade)), y.team);
		chk!(format!("{}.handicap", w), x.handicap, y.handicap);
		chk!(format!("{}.bitfield", w), x.bitfield, y.bitfield);
		chk!(format!("{}.cpu_level", w), x.cpu_level, y.cpu_level);
		chk!(format!("{}.offense_ratio", w), x.offense_ratio.to_bits(), y.off);
		chk!(format!("{}.defense_ratio", w), x.defense_ratio.to_bits(), y.def);
		chk!(format!("{}.model_scale", w), x.model_scale.to_bits(), y.scale);
		chk!(format!("{}.ucf", w), x.ucf.map(|u| (u.dash_back.map_or(0, |d| d as u32), u.shield_drop.map_or(0, |d| d as u32))), y.ucf);
		chk!(format!("{}.name_tag", w), x.name_tag.as_ref().map(|t| t.0.clone()), y.name_tag.clone());
		match (&x.netplay, &y.netplay) {
			(None, None) => {}
			(Some(n), Some((name, code, suid))) => {
				chk!(format!("{}.netplay.name", w), &n.name.0, name);
				chk!(format!("{}.netplay.code", w), &n.code.0, code);
				match suid {
					None => chk!(format!("{}.netplay.suid", w), n.suid.clone(), None::<String>),
					Some(Some(s)) => chk!(format!("{}.netplay.suid", w), n.suid.clone(), Some(s.clone())),
					Some(None) => {
						if n.suid.is_none() {
							return Err(format!("start.{}.netplay.suid absent although the block contains the UID field", w));
						}
					}
				}
			}
			_ => return Err(format!("start.{}.netplay presence differs from the block length", w)),
		}
	}
	Ok(())
}

#[derive(Debug, Clone, PartialEq)]
pub struct REnd {
	method: u8,
	lras: Option<Option<u8>>,
	players: Option<Vec<(u8, u8)>>,
}

pub fn ref_end(b: &[u8]) -> Expect<REnd> {
	let mut err = None;
	if ![0u8, 1, 2, 3, 7].contains(&b[0]) {
		err = Some(format!("end method {} has no representation", b[0]));
	}
	let lras = if b.len() >= 2 {
		match b[1] {
			255 => Some(None),
			p @ 0..=3 => Some(Some(p)),
			x => {
				err.get_or_insert(format!("LRAS initiator {} has no representation", x));
				Some(None)
			}
		}
	} else {
		None
	};
	let players = if b.len() >= 6 {
		let mut v = vec![];
		for p in 0..4 {
			match b[2 + p] as i8 {
				-1 => {}
				x @ 0..=3 => v.push((p as u8, x as u8)),
				x => {
					err.get_or_insert(format!("placement {} has no representation", x));
				}
			}
		}
		Some(v)
	} else {
		None
	};
	let e = REnd { method: b[0], lras, players };
	match err {
		Some(m) => Expect::Err(m),
		None => Expect::Ok(e),
	}
}

fn end_json(e: &REnd) -> Value {
	let mut m = serde_json::Map::new();
	m.insert(
		"method".into(),
		json!(match e.method {
			0 => "Unresolved",
			1 => "Time",
			2 => "Game",
			3 => "Resolved",
			_ => "NoContest",
		}),
	);
	if let Some(l) = e.lras {
		m.insert("lras_initiator".into(), l.map_or(Value::Null, |p| json!(port_name(p))));
	}
	if let Some(ps) = &e.players {
		m.insert("players".into(), Value::Array(ps.iter().map(|(p, pl)| json!({"port": port_name(*p), "placement": pl})).collect()));
	}
	Value::Object(m)
}

fn compare_end(g: &Game, e: &REnd) -> Result<(), String> {
	let a = g.end.as_ref().ok_or("game.end is None although the file has a Game End")?;
	if a.method as u8 != e.method {
		return Err(format!("end.method {:?} but the raw byte is {}", a.method, e.method));
	}
	if a.lras_initiator.map(|o| o.map(|p| p as u8)) != e.lras {
		return Err(format!("end.lras_initiator {:?} but the raw block says {:?}", a.lras_initiator, e.lras));
	}
	let got = a.players.as_ref().map(|v| v.iter().map(|p| (p.port as u8, p.placement)).collect::<Vec<_>>());
	if got != e.players {
		return Err(format!("end.players {:?} but the raw block says {:?}", got, e.players));
	}
	Ok(())
}

/// input = a zero-frame replay; the blocks are taken from it by position (table first)
pub fn o_start_end(input: &[u8], p: &P) -> Out {
	let mut out = Out { transitions: 1, nontrivial: true, ..Default::default() };
	// locate the blocks with the table (the model's own walk, no peppi involved)
	let tsz = input[16] as usize;
	let mut start_len = 0usize;
	let mut end_len = 0usize;
	for i in 0..(tsz - 1) / 3 {
		let o = 17 + 3 * i;
		let sz = u16::from_be_bytes([input[o + 1], input[o + 2]]) as usize;
		if input[o] == 0x36 {
			start_len = sz;
		}
		if input[o] == 0x39 {
			end_len = sz;
		}
	}
	let so = 15 + 1 + tsz + 1;
	let sblock = &input[so..so + start_len];
	let eo = so + start_len + 1;
	let eblock = &input[eo..eo + end_len];
	let es = ref_start(sblock);
	let ee = ref_end(eblock);
	let r = catch(|| -> Result<u64, (String, String)> {
		let e = |k: &str, m: String| (k.to_string(), m);
		let res = read_slp(input, p.skip, false);
		let must_err = match (&es, &ee) {
			(Expect::Err(m), _) | (_, Expect::Err(m)) => Some(m.clone()),
			_ => None,
		};
		let may_err = matches!(es, Expect::Either(..));
		let g = match res {
			Err(Fail::Panic(pn)) => return Err(e(&pn.key(), format!("panic: {}", pn.msg))),
			Err(Fail::Err(m)) => {
				if must_err.is_some() || may_err {
					return Ok(2);
				}
				return Err(e("unexpected-error", format!("reading failed although every mapped byte has a representation: {}", m)));
			}
			Ok(g) => g,
		};
		if let Some(m) = must_err {
			return Err(e("accepted-unrepresentable", format!("reading succeeded although {}", m)));
		}
		let s = match &es {
			Expect::Ok(s) | Expect::Either(s, _) => s,
			_ => unreachable!(),
		};
		compare_start(&g, s).map_err(|m| e("start-field", m))?;
		if g.start.bytes.0 != sblock {
			return Err(e("start-bytes", "start.bytes differs from the raw block".into()));
		}
		let js = serde_json::to_value(&g.start).map_err(|x| e("start-json", x.to_string()))?;
		let want = start_json(s, &js);
		if js != want {
			return Err(e("start-json", format!("JSON rendering of start differs:\n  got  {}\n  want {}", js, want)));
		}
		if let Expect::Ok(en) = &ee {
			compare_end(&g, en).map_err(|m| e("end-field", m))?;
			if g.end.as_ref().unwrap().bytes.0 != eblock {
				return Err(e("end-bytes", "end.bytes differs from the raw block".into()));
			}
			let je = serde_json::to_value(g.end.as_ref().unwrap()).map_err(|x| e("end-json", x.to_string()))?;
			let want = end_json(en);
			if je != want {
				return Err(e("end-json", format!("JSON rendering of end differs:\n  got  {}\n  want {}", je, want)));
			}
		}
		Ok(fnv_mix(xx(sblock), xx(eblock)))
	});
	finish_out(&mut out, "start_end", p, r);
	out
}

fn file_with(start: &[u8], end: &[u8]) -> Vec<u8> {
	let doc = Doc {
		table: vec![(0x36, start.len() as u16), (0x37, 58), (0x38, 33), (0x39, end.len() as u16)],
		events: vec![Ev { code: 0x36, payload: start.to_vec(), tag: Tag::GameStart }, Ev { code: 0x39, payload: end.to_vec(), tag: Tag::GameEnd { n: 0 } }],
		raw_junk: vec![],
		metadata: None,
		raw_len_override: None,
		trailing: vec![],
	};
	doc.assemble()
}

pub fn run() {
	let cx = ctx();
	cx.note("rule", json!("all 784 versions with a 2-frame replay read under every option combination (skip_frames x compute_hash): same blocks, same start and end as the plain read; per Game Start length class (320/352/416/417/418/420/584/700/701/760 bytes): (a) all 5^4 type-byte patterns {0,1,2,3,0x80} x teams {0,1} with ICs on varying ports; (b) EVERY byte offset of the block x all 256 values, one byte at a time (occupied human / CPU / demo ports and an unoccupied one); (c) NUL at every position (and none) of name tag, display name, connect code, UID, match id. Per Game End length class (1, 2, 6 bytes): every byte x 256 values, and the full product methods {0,1,2,3,7,4} x LRAS {255,0,1,2,3,4} x 6^4 placements over {-1,0,1,2,3,4}. Read through a zero-frame replay (both with and without skip_frames). Oracle: independent decode by SPEC offsets: every exposed field, optional fields present iff the block is long enough, players = ports with type 0..2 in port order, cpu_level only for CPU, team only with teams on, raw bytes retained, serde_json rendering equal to the reference JSON; values without representation must give Err (for unoccupied ports Err or ignore). Every case is non-trivial (distinct block)"));
	cx.note("exhaustive", json!(true));
	cx.note("assumptions", json!(["encoding_rs's Shift-JIS table is trusted (strings are decoded by the harness with the same table; C19 checks the slicing)", "a UID / match id without NUL terminator inside its field is an open zone (length of the result not compared)", "non-finite floats are compared as JSON null"]));
	let mut jobs: Vec<(Vec<u8>, Vec<u8>, String, &'static str)> = vec![];
	let base_ports = vec![PortCfg { port: 0, ics: false, ptype: 0 }, PortCfg { port: 1, ics: true, ptype: 1 }, PortCfg { port: 3, ics: false, ptype: 2 }];
	for (v, size) in spec::GAME_START_CLASSES {
		let endb = game_end_block(v, &base_ports, Fill::A);
		for fill in [Fill::A, Fill::B] {
			let base = game_start_block((v.0, v.1, 0), &base_ports, fill == Fill::B, fill);
			assert_eq!(base.len(), size);
			jobs.push((base.clone(), endb.clone(), format!("class {} base fill {:?}", size, fill), "base"));
			if fill == Fill::B && cx.quick() {
				continue;
			}
			// (b) every byte, every value
			for off in 0..size {
				for val in 0..=255u8 {
					if base[off] == val {
						continue;
					}
					let mut b = base.clone();
					b[off] = val;
					jobs.push((b, endb.clone(), format!("class {} fill {:?} byte {:#x} = {:#04x}", size, fill, off, val), "byte"));
				}
			}
		}
		// (a) type patterns
		let base = game_start_block((v.0, v.1, 0), &base_ports, false, Fill::A);
		let types = [0u8, 1, 2, 3, 0x80];
		for pat in 0..625usize {
			for teams in [0u8, 1] {
				let mut b = base.clone();
				b[gs::TEAMS] = teams;
				let mut x = pat;
				for p in 0..4usize {
					let o = gs::PLAYERS + p * gs::PLAYER_STRIDE;
					b[o + gs::pl::TYPE] = types[x % 5];
					x /= 5;
					b[o + gs::pl::CHARACTER] = if (pat + p) % 3 == 0 { ICS } else { (pat + p) as u8 % 26 };
				}
				jobs.push((b, endb.clone(), format!("class {} types pattern {} teams {}", size, pat, teams), "types"));
			}
		}
		// (c) strings
		let fields: Vec<(usize, usize, usize)> = vec![(gs::NAME_TAG, 16, 416), (gs::DISPLAY_NAME, 31, 584), (gs::CONNECT_CODE, 10, 584), (gs::SUID, 29, 700)];
		for (foff, flen, need) in fields {
			if size < need {
				continue;
			}
			for p in 0..4usize {
				for nul in 0..=flen {
					let mut b = base.clone();
					for k in 0..flen {
						b[foff + p * flen + k] = if k == nul { 0 } else { b'A' + (k % 26) as u8 };
					}
					jobs.push((b, endb.clone(), format!("class {} string field {:#x} port {} NUL at {}", size, foff, p, nul), "string"));
				}
			}
		}
		if size >= 760 {
			for nul in 0..=51usize {
				let mut b = base.clone();
				for k in 0..51 {
					b[gs::MATCH_ID + k] = if k == nul { 0 } else { b'a' + (k % 26) as u8 };
				}
				jobs.push((b, endb.clone(), format!("match id NUL at {}", nul), "string"));
			}
		}
	}
	// Game End
	for v in [(0u8, 1u8), (2, 0), (3, 13)] {
		let sb = game_start_block((v.0, v.1, 0), &base_ports, false, Fill::A);
		let n = spec::game_end_size(v);
		let base = game_end_block(v, &base_ports, Fill::A);
		for off in 0..n {
			for val in 0..=255u8 {
				let mut b = base.clone();
				b[off] = val;
				jobs.push((sb.clone(), b, format!("end class {} byte {} = {:#04x}", n, off, val), "end-byte"));
			}
		}
		if n == 6 {
			for m in [0u8, 1, 2, 3, 7, 4] {
				for l in [255u8, 0, 1, 2, 3, 4] {
					for pl in 0..1296usize {
						let vals = [-1i8, 0, 1, 2, 3, 4];
						let mut x = pl;
						let mut b = vec![m, l, 0, 0, 0, 0];
						for k in 0..4 {
							b[2 + k] = vals[x % 6] as u8;
							x /= 6;
						}
						jobs.push((sb.clone(), b, format!("end method {} lras {} placements #{}", m, l, pl), "end-product"));
					}
				}
			}
		}
	}
	cx.note("blocks", json!(jobs.len()));
	par_each(jobs.into_iter(), |(sb, eb, label, class), local| {
		let bytes = Arc::new(file_with(&sb, &eb));
		// skip_frames keeps column allocation at zero; a slice of the cases also goes through the full path
		let p = P { skip: true, class, ..Default::default() };
		eval_case("start_end", o_start_end, &bytes, &p, || label.clone(), local);
		if class != "byte" || local.evaluations % 16 == 0 {
			let p2 = P { skip: false, class, ..Default::default() };
			eval_case("start_end", o_start_end, &bytes, &p2, || label, local);
		}
	});
	// replays that do have frames, every version, every option combination
	let mut with_frames = vec![];
	for v in spec::v_all() {
		with_frames.push(crate::gen::per_version_replay(v, Fill::B));
	}
	par_each(with_frames.into_iter(), |abs, local| {
		let bytes = Arc::new(record(&abs).doc.assemble());
		let p = P { class: "with-frames", ..Default::default() };
		eval_case("start_end_options", o_start_end_options, &bytes, &p, || abs.describe(), local);
	});
	finish(cx);
}
