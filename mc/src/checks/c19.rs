//! C19: name fields decode as Shift-JIS up to the first NUL; normalisation is exact.

use std::sync::Arc;

use serde_json::json;

use peppi::game::shift_jis::MeleeString;

use crate::checks::c05::o_start_end;
use crate::rec::*;
use crate::spec::gs;
use crate::util::*;

pub const ORACLES: &[(&str, Oracle)] = &[("normalize", o_normalize)];

fn norm_ref(c: char) -> char {
	match c as u32 {
		0xFF01..=0xFF5E => char::from_u32(c as u32 - 0xFEE0).unwrap(),
		0x3000 => ' ',
		0x2019 => '\'',
		0x201D => '"',
		_ => c,
	}
}

fn check_norm(s: &str) -> Result<(), (String, String)> {
	let got = match catch(|| MeleeString(s.to_string()).to_normalized()) {
		Ok(g) => g,
		Err(pn) => return Err((pn.key(), format!("to_normalized panicked on {:?}: {}", s, pn.msg))),
	};
	let want: String = s.chars().map(norm_ref).collect();
	if got != want {
		return Err(("mapping".into(), format!("to_normalized({:?} = {:x?}) = {:?} ({:x?}), expected {:?}", s, s.chars().map(|c| c as u32).collect::<Vec<_>>(), got, got.chars().map(|c| c as u32).collect::<Vec<_>>(), want)));
	}
	let again = MeleeString(got.clone()).to_normalized();
	if again != got {
		return Err(("idempotence".into(), format!("normalising {:?} twice gives {:?} then {:?}", s, got, again)));
	}
	if MeleeString(s.to_string()).as_str() != s {
		return Err(("as_str".into(), "as_str does not return the decoded string".into()));
	}
	Ok(())
}

pub fn o_normalize(_input: &[u8], p: &P) -> Out {
	let mut out = Out { transitions: 1, nontrivial: true, ..Default::default() };
	if let Err((k, m)) = check_norm(p.s.as_deref().unwrap_or("")) {
		out.viol = crate::common::viol("normalize", p, &k, m);
	}
	out
}

fn file_with_start(start: &[u8]) -> Vec<u8> {
	let doc = Doc {
		table: vec![(0x36, start.len() as u16), (0x37, 64), (0x38, 84), (0x39, 6)],
		events: vec![Ev { code: 0x36, payload: start.to_vec(), tag: Tag::GameStart }, Ev { code: 0x39, payload: vec![2, 255, 0, 1, 255, 255], tag: Tag::GameEnd { n: 0 } }],
		raw_junk: vec![],
		metadata: None,
		raw_len_override: None,
		trailing: vec![],
	};
	doc.assemble()
}

pub fn run() {
	let cx = ctx();
	cx.note("rule", json!("name tag (16 bytes), display name (31), connect code (10) of a Game Start (the byte sweeps on the 3.16 layout; the NUL / garbage / text cases on the 1.3, 3.9, 3.11, 3.14 and 3.16 layouts), for an occupied and an unoccupied port: ALL 256 single bytes and ALL 65,536 two-byte sequences at the field start (followed by NUL) and straddling the field end (second byte belongs to the neighbouring field); a valid prefix with NUL at EVERY position followed by garbage {0x01, 0x80, 0xFF, a valid lead byte, a full invalid run}; fields without NUL; longer texts from units of different expansion (ASCII, half-width katakana 0xB1/0xDF, two-byte kana, full-width space): ALL sequences of up to 4 units and every run of an expanding unit at every offset and every length that fits the field. Oracle: field == strict Shift-JIS decode (no replacement) of the bytes before the first NUL inside the field; invalid => read is Err (for an unoccupied port Err or ignored); no U+FFFD ever. Normalisation: ALL 1,112,064 Unicode scalar values as one-character strings and all pairs from a 64-character edge set: U+FF01..U+FF5E -> c-0xFEE0, U+3000 -> ' ', U+2019 -> ', U+201D -> \", everything else unchanged, idempotent. Every case non-trivial; distinct by construction"));
	cx.note("exhaustive", json!(true));
	cx.note("assumptions", json!(["encoding_rs's Shift-JIS table is the reference for what a valid sequence decodes to (trusted base); the check is about slicing at the NUL and strictness"]));
	let ports = vec![PortCfg { port: 0, ics: false, ptype: 0 }, PortCfg { port: 1, ics: false, ptype: 1 }, PortCfg { port: 3, ics: false, ptype: 2 }];
	let base = Arc::new(game_start_block((3, 16, 0), &ports, false, Fill::A));
	let fields: [(usize, usize); 3] = [(gs::NAME_TAG, 16), (gs::DISPLAY_NAME, 31), (gs::CONNECT_CODE, 10)];
	// shard: (field, port, placement, first byte)
	let mut shards = vec![];
	let port_sel: Vec<usize> = if cx.quick() { vec![0] } else { vec![0, 2, 3] };
	for (fi, _) in fields.iter().enumerate() {
		for port in &port_sel {
			for placement in 0..2usize {
				for a in 0..=255u8 {
					shards.push((fi, *port, placement, a));
				}
			}
		}
	}
	let b2 = base.clone();
	par_each(shards.into_iter(), move |(fi, port, placement, a), local| {
		let (foff, flen) = fields[fi];
		let fo = foff + port * flen;
		let class: &'static str = ["name-tag", "display-name", "connect-code"][fi];
		let run = |blk: Vec<u8>, label: String, local: &mut Local| {
			let bytes = Arc::new(file_with_start(&blk));
			let p = P { skip: true, class, ..Default::default() };
			eval_case("start_end", o_start_end, &bytes, &p, || label, local);
		};
		if placement == 0 {
			// at the field start
			let mut blk = (*b2).clone();
			for k in 0..flen {
				blk[fo + k] = 0;
			}
			blk[fo] = a;
			run(blk.clone(), format!("{} port {} = [{:#04x}] NUL", class, port, a), local);
			for b in 0..=255u8 {
				let mut x = blk.clone();
				x[fo + 1] = b;
				run(x, format!("{} port {} = [{:#04x} {:#04x}] NUL", class, port, a, b), local);
			}
		} else {
			// straddling the field end: last byte of the field = a, the next byte (neighbour) = b
			let mut blk = (*b2).clone();
			for k in 0..flen {
				blk[fo + k] = b'A' + (k % 26) as u8;
			}
			blk[fo + flen - 1] = a;
			for b in 0..=255u8 {
				let mut x = blk.clone();
				x[fo + flen] = b;
				run(x, format!("{} port {} last byte {:#04x}, neighbour {:#04x}", class, port, a, b), local);
			}
		}
	});
	// NUL at every position, garbage after it
	let mut jobs = vec![];
	// the NUL / garbage / text cases for every Game Start layout that has the field: the blocks of 1.3 (name tag
	// only), 3.9 (netplay name and code, no UID yet), 3.11, 3.14 and 3.16
	for ver in [(1u8, 3u8, 0u8), (3, 9, 0), (3, 11, 0), (3, 14, 0), (3, 16, 0)] {
		let base = Arc::new(game_start_block(ver, &ports, false, Fill::A));
		let prefix: Vec<u8> = vec![0x83, 0x65, b'a', 0x81, 0x94, b'1', 0xB1, b'z', 0x82, 0xA0, b'Q', 0x83, 0x58, b'9', 0xC0, b'k', 0x88, 0x9F, b'm', 0x81, 0x40, b'n', 0x82, 0x4F, b'o', 0x81, 0x49, b'p', 0x81, 0x97, b'q'];
		for (fi, (foff, flen)) in fields.iter().enumerate() {
			if foff + 4 * flen > base.len() {
				continue; // this layout does not have the field yet
			}
			for port in [0usize, 2] {
				let fo = foff + port * flen;
				for nul in 0..=*flen {
					for (gi, garbage) in [vec![0x01u8], vec![0x80], vec![0xFF], vec![0x83], vec![0x83, 0xFF, 0x80, 0xA0, 0xFD]].iter().enumerate() {
						let mut blk = (*base).clone();
						for k in 0..*flen {
							blk[fo + k] = if k < nul { prefix[k % prefix.len()] } else if k == nul { 0 } else { garbage[(k - nul - 1) % garbage.len()] };
						}
						jobs.push((blk, format!("v{}.{} field {} port {} NUL at {} garbage #{}", ver.0, ver.1, fi, port, nul, gi), ["name-tag", "display-name", "connect-code"][fi]));
					}
				}
			}
		}
		// longer texts: units of different expansion (1 byte -> 1 or 3 UTF-8 bytes, 2 bytes -> 3): ALL sequences of up
		// to 4 units, and every run of an expanding unit at every offset and of every length that fits the field
		// (after filler units of each kind), NUL-terminated when there is room
		let units: Vec<Vec<u8>> = vec![vec![0x41], vec![0xB1], vec![0xDF], vec![0x82, 0xA0], vec![0x81, 0x40]];
		for (fi, (foff, flen)) in fields.iter().enumerate() {
			if foff + 4 * flen > base.len() {
				continue;
			}
			let class = ["name-tag", "display-name", "connect-code"][fi];
			let mut texts: Vec<Vec<u8>> = vec![];
			let mut level: Vec<Vec<u8>> = vec![vec![]];
			for _ in 0..4 {
				let mut next = vec![];
				for t in &level {
					for u in &units {
						let mut x = t.clone();
						x.extend_from_slice(u);
						if x.len() <= *flen {
							next.push(x);
						}
					}
				}
				texts.extend(next.iter().cloned());
				level = next;
			}
			for f in &units {
				for x in &units[1..4] {
					for o in 0..=*flen {
						for k in 1..=*flen {
							if o * f.len() + k * x.len() > *flen {
								break;
							}
							let mut t = vec![];
							for _ in 0..o {
								t.extend_from_slice(f);
							}
							for _ in 0..k {
								t.extend_from_slice(x);
							}
							texts.push(t);
						}
					}
				}
			}
			for port in [0usize, 3] {
				let fo = foff + port * flen;
				for t in &texts {
					let mut blk = (*base).clone();
					for k in 0..*flen {
						blk[fo + k] = if k < t.len() { t[k] } else { 0 };
					}
					jobs.push((blk, format!("v{}.{} field {} port {} text {:02x?}", ver.0, ver.1, fi, port, t), class));
				}
			}
		}
	}
	par_each(jobs.into_iter(), |(blk, label, class), local| {
		let bytes = Arc::new(file_with_start(&blk));
		for skip in [true, false] {
			let p = P { skip, class, ..Default::default() };
			eval_case("start_end", o_start_end, &bytes, &p, || label.clone(), local);
		}
	});
	// normalisation: all scalar values
	par_each(0..0x1100u32, |hi, local| {
		let mut s = String::new();
		for lo in 0..256u32 {
			if let Some(c) = char::from_u32(hi << 8 | lo) {
				s.clear();
				s.push(c);
				local.evaluations += 1;
				local.transitions += 2;
				local.bulk += 1;
				local.nontrivial += 1;
				let mapped = norm_ref(c) != c;
				local.outcomes.insert(fnv_mix(21, mapped as u64));
				local.states.insert(fnv_mix(21, mapped as u64));
				if let Err((_, first)) = check_norm(&s) {
					let p = P { class: "scalar", s: Some(Arc::from(s.as_str())), ..Default::default() };
					let empty = Arc::new(vec![]);
					local.evaluations -= 1;
					eval_flagged("normalize", o_normalize, &empty, &p, || format!("U+{:04X}", c as u32), first, local);
				}
			}
		}
	});
	let edge: Vec<char> = [
		0x20u32, 0x21, 0x27, 0x22, 0x7E, 0x7F, 0xA5, 0x2018, 0x2019, 0x201A, 0x201C, 0x201D, 0x201E, 0x2FFF, 0x3000, 0x3001, 0x30A2, 0xFEFF, 0xFF00, 0xFF01, 0xFF02, 0xFF07, 0xFF10, 0xFF21, 0xFF3C, 0xFF41, 0xFF5D, 0xFF5E, 0xFF5F, 0xFF60, 0xFF61, 0xFF71, 0xFF9F, 0xFFE0, 0xFFE5, 0xFFFD, 0xD7FF, 0xE000, 0x10000, 0x1F600, 0x10FFFF, 0x0, 0x1, 0x80, 0xFF, 0x100, 0x3B1, 0x4E00, 0x9FA0, 0xFF20, 0xFF40, 0xFF1A, 0xFF0E, 0xFF0F, 0xFF3B, 0xFF3D, 0xFF5B, 0xFF5C, 0x3002, 0x300C, 0x301C, 0x2015, 0x2225, 0xFFE3,
	]
	.iter()
	.filter_map(|c| char::from_u32(*c))
	.collect();
	let mut local = Local::default();
	for a in &edge {
		for b in &edge {
			let s: String = [*a, *b].iter().collect();
			let p = P { class: "pair", s: Some(Arc::from(s.as_str())), ..Default::default() };
			let empty = Arc::new(vec![]);
			eval_case("normalize", o_normalize, &empty, &p, || format!("U+{:04X} U+{:04X}", *a as u32, *b as u32), &mut local);
		}
	}
	local.merge();
	finish(cx);
}
