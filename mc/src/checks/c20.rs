//! C20: version comparison, parsing and display are mutually consistent and total.

use std::str::FromStr;
use std::sync::Arc;

use serde_json::json;

use peppi::io::{peppi as ppi, slippi};

use crate::util::*;

pub const ORACLES: &[(&str, Oracle)] = &[("version", o_version)];

/// reference classification of a version string
#[derive(Debug, PartialEq)]
enum Cls {
	/// three canonical numerals 0..255: must parse to exactly this
	Canon(u8, u8, u8),
	/// three numerals with `+` / leading zeros, value <= 255: Ok(this) or Err both fine
	Liberal(u8, u8, u8),
	/// anything else: must be Err
	Bad,
}

fn classify(s: &str) -> Cls {
	let parts: Vec<&str> = s.split('.').collect();
	if parts.len() != 3 {
		return Cls::Bad;
	}
	let mut vals = [0u8; 3];
	let mut canon = true;
	for (i, p) in parts.iter().enumerate() {
		let digits = p.strip_prefix('+').unwrap_or(p);
		if digits.len() != p.len() {
			canon = false;
		}
		if digits.is_empty() || !digits.bytes().all(|b| b.is_ascii_digit()) {
			return Cls::Bad;
		}
		if digits.len() > 1 && digits.starts_with('0') {
			canon = false;
		}
		// value
		let mut v: u32 = 0;
		for b in digits.bytes() {
			v = v * 10 + (b - b'0') as u32;
			if v > 255 {
				return Cls::Bad;
			}
		}
		vals[i] = v as u8;
	}
	if canon {
		Cls::Canon(vals[0], vals[1], vals[2])
	} else {
		Cls::Liberal(vals[0], vals[1], vals[2])
	}
}

fn check_string(s: &str) -> Result<(), String> {
	let cls = classify(s);
	let a = slippi::Version::from_str(s).ok().map(|v| (v.0, v.1, v.2));
	let b = ppi::Version::from_str(s).ok().map(|v| (v.0, v.1, v.2));
	for (which, got) in [("slippi", a), ("peppi", b)] {
		match (&cls, got) {
			(Cls::Canon(x, y, z), Some(g)) if g == (*x, *y, *z) => {}
			(Cls::Canon(x, y, z), g) => return Err(format!("{}::Version::from_str({:?}) = {:?}, expected Ok({}.{}.{})", which, s, g, x, y, z)),
			(Cls::Liberal(x, y, z), Some(g)) if g != (*x, *y, *z) => return Err(format!("{}::Version::from_str({:?}) = {:?}, but the numerals denote {}.{}.{}", which, s, g, x, y, z)),
			(Cls::Liberal(..), _) => {}
			(Cls::Bad, Some(g)) => return Err(format!("{}::Version::from_str({:?}) = Ok({:?}) although the string is not three dot-separated integers in 0..255", which, s, g)),
			(Cls::Bad, None) => {}
		}
	}
	Ok(())
}

fn check_string_caught(s: &str) -> Result<(), String> {
	match catch(|| check_string(s)) {
		Ok(r) => r,
		Err(pn) => Err(format!("panic: {}", pn.msg)),
	}
}

/// Components for the structured string sweep: a small menu of short components, and long
/// components (1..=24 bytes) holding one multi-byte character at every byte offset, padded with
/// letters or with digits - a parser that cuts, indexes or measures a component by bytes meets a
/// character boundary at every position.
fn component_menus() -> (Vec<String>, Vec<String>) {
	let small: Vec<String> = ["", "0", "7", "255", "256", "+1", "01", "-1", " 1", "a", "\u{e9}", "\u{ff11}"].iter().map(|s| s.to_string()).collect();
	let mut long = vec![];
	for n in 1..=24usize {
		for c in ['\u{e9}', '\u{3042}', '\u{1f600}'] {
			for o in 0..n {
				if o + c.len_utf8() > n {
					continue;
				}
				for fill in ['x', '1'] {
					let mut t = String::new();
					for _ in 0..o {
						t.push(fill);
					}
					t.push(c);
					while t.len() < n {
						t.push(fill);
					}
					long.push(t);
				}
			}
		}
		// and plain ASCII of that length, digits and letters
		long.push("1".repeat(n));
		long.push("x".repeat(n));
	}
	(small, long)
}

fn check_gte(v: (u8, u8, u8), t: (u8, u8)) -> Result<(), String> {
	let ver = slippi::Version(v.0, v.1, v.2);
	let want = (v.0, v.1) >= t;
	let g = ver.gte(t.0, t.1);
	let l = ver.lt(t.0, t.1);
	if g != want {
		return Err(format!("Version({},{},{}).gte({},{}) = {} but ({},{}) >= ({},{}) is {}", v.0, v.1, v.2, t.0, t.1, g, v.0, v.1, t.0, t.1, want));
	}
	if l == g {
		return Err(format!("Version({},{},{}).lt({},{}) = {} is not the negation of gte = {}", v.0, v.1, v.2, t.0, t.1, l, g));
	}
	Ok(())
}

fn check_display(v: (u8, u8, u8)) -> Result<(), String> {
	let s = slippi::Version(v.0, v.1, v.2).to_string();
	let want = format!("{}.{}.{}", v.0, v.1, v.2);
	if s != want {
		return Err(format!("slippi::Version display {:?}, expected {:?}", s, want));
	}
	match slippi::Version::from_str(&s) {
		Ok(b) if (b.0, b.1, b.2) == v => {}
		other => return Err(format!("slippi: parse(display({:?})) = {:?}", v, other.map(|b| (b.0, b.1, b.2)).map_err(|e| e.to_string()))),
	}
	let s = ppi::Version(v.0, v.1, v.2).to_string();
	if s != want {
		return Err(format!("peppi::Version display {:?}, expected {:?}", s, want));
	}
	match ppi::Version::from_str(&s) {
		Ok(b) if (b.0, b.1, b.2) == v => {}
		other => return Err(format!("peppi: parse(display({:?})) = {:?}", v, other.map(|b| (b.0, b.1, b.2)).map_err(|e| e.to_string()))),
	}
	Ok(())
}

/// p.n[0]: 0 = gte (n[1..=3] version, n[4..=5] threshold), 1 = display (n[1..=3]), 2 = string (p.s)
pub fn o_version(_input: &[u8], p: &P) -> Out {
	let mut out = Out { transitions: 1, nontrivial: true, ..Default::default() };
	let r = catch(|| match p.n[0] {
		0 => check_gte((p.n[1] as u8, p.n[2] as u8, p.n[3] as u8), (p.n[4] as u8, p.n[5] as u8)),
		1 => check_display((p.n[1] as u8, p.n[2] as u8, p.n[3] as u8)),
		_ => check_string(p.s.as_deref().unwrap_or("")),
	});
	match r {
		Ok(Ok(())) => {}
		Ok(Err(m)) => out.viol = crate::common::viol("version", p, ["gte", "display-parse", "string"][p.n[0].clamp(0, 2) as usize], m),
		Err(pn) => out.viol = crate::common::viol("version", p, &pn.key(), format!("panic: {}", pn.msg)),
	}
	out
}

fn report(p: P, first: String, local: &mut Local) {
	let empty = Arc::new(vec![]);
	let label = format!("{:?} {:?}", p.n, p.s);
	eval_flagged("version", o_version, &empty, &p, || label, first, local);
}

pub fn run() {
	let cx = ctx();
	cx.note("rule", json!("gte/lt: ALL 2^16 (major,minor) x ALL 2^16 thresholds (patch varied), gte == lexicographic >=, lt == !gte; display/parse: ALL 2^24 triples for slippi::Version and peppi::Version, parse(display(v)) == v and display is 'a.b.c'; rejection: ALL strings of length <= 6 (thorough: <= 7) over the alphabet {0,1,2,5,6,9,'.','-','+',' ','a'} plus a list of boundary strings, plus strings of 4 .. 65,540 components, plus a structured sweep (one long component of 1..=24 bytes holding a 2-, 3- or 4-byte character at EVERY byte offset, padded with letters or digits, at every position of 1- to 4-component strings whose other components come from a 12-entry menu): three canonical numerals <= 255 must parse to their value, anything that is not three dot-separated integers in 0..255 must be Err; '+' prefixes and leading zeros may go either way (if Ok, the value must be the denoted one). Every case is a distinct input by construction of the nested enumeration"));
	cx.note("exhaustive", json!(true));
	cx.note("assumptions", json!(["strings longer than the bound and outside the alphabet are represented by the boundary list only"]));
	// gte: shard by major/minor of the version
	par_each(0..65536u32, |vm, local| {
		let v = ((vm >> 8) as u8, vm as u8, (vm ^ (vm >> 5)) as u8);
		let ver = slippi::Version(v.0, v.1, v.2);
		let mut bad = None;
		for t in 0..65536u32 {
			let (tm, tn) = ((t >> 8) as u8, t as u8);
			let want = (v.0, v.1) >= (tm, tn);
			let g = ver.gte(tm, tn);
			if g != want || ver.lt(tm, tn) == g {
				bad = Some((tm, tn));
				break;
			}
		}
		local.evaluations += 65536;
		local.transitions += 2 * 65536;
		local.bulk += 65536;
		local.nontrivial += 65536;
		local.states.insert(fnv_mix(1, vm as u64));
		if let Some((tm, tn)) = bad {
			let mut p = P { class: "gte", ..Default::default() };
			p.n = [0, v.0 as i64, v.1 as i64, v.2 as i64, tm as i64, tn as i64];
			report(p, "gte/lt disagreed with the tuple comparison".to_string(), local);
		}
	});
	// display / parse
	par_each(0..65536u32, |hi, local| {
		for lo in 0..256u32 {
			let v = ((hi >> 8) as u8, hi as u8, lo as u8);
			if let Err(first) = check_display(v) {
				let mut p = P { class: "display", ..Default::default() };
				p.n = [1, v.0 as i64, v.1 as i64, v.2 as i64, 0, 0];
				report(p, first, local);
				break;
			}
		}
		local.evaluations += 256;
		local.transitions += 4 * 256;
		local.bulk += 256;
		local.nontrivial += 256;
		local.states.insert(fnv_mix(2, hi as u64));
	});
	// strings
	let alpha: Vec<char> = vec!['0', '1', '2', '5', '6', '9', '.', '-', '+', ' ', 'a'];
	let maxlen = if cx.quick() { 6 } else { 7 };
	let k = alpha.len();
	// shard on the first two symbols
	let mut shards: Vec<Vec<char>> = vec![vec![]];
	for a in &alpha {
		shards.push(vec![*a]);
		for b in &alpha {
			shards.push(vec![*a, *b]);
		}
	}
	let alpha2 = alpha.clone();
	par_each(shards.into_iter(), move |prefix, local| {
		let rest_max = if prefix.len() < 2 { 0 } else { maxlen - 2 };
		let mut n = 0u64;
		let mut outcomes = [0u64; 3];
		let mut s = String::new();
		for len in 0..=rest_max {
			let total = k.pow(len as u32);
			for mut idx in 0..total {
				s.clear();
				for c in &prefix {
					s.push(*c);
				}
				for _ in 0..len {
					s.push(alpha2[idx % k]);
					idx /= k;
				}
				n += 1;
				match classify(&s) {
					Cls::Canon(..) => outcomes[0] += 1,
					Cls::Liberal(..) => outcomes[1] += 1,
					Cls::Bad => outcomes[2] += 1,
				}
				if let Err(first) = check_string_caught(&s) {
					let mut p = P { class: "string", s: Some(Arc::from(s.as_str())), ..Default::default() };
					p.n[0] = 2;
					report(p, first, local);
				}
			}
		}
		local.evaluations += n;
		local.transitions += 2 * n;
		local.bulk += n;
		local.nontrivial += n;
		for (i, o) in outcomes.iter().enumerate() {
			if *o > 0 {
				local.outcomes.insert(100 + i as u64);
				local.states.insert(fnv_mix(3, i as u64));
			}
		}
	});
	let boundary = [
		"255.255.255", "256.0.0", "0.256.0", "0.0.256", "300.1.1", "1000.0.0", "0.0.1000", "..", "1..2", "1.2", "1.2.3.4", "1.2.3.", ".1.2.3", " 1.2.3", "1.2.3 ", "1.2.-3", "1.2.3\n", "\u{0661}.2.3", "1,2,3", "1.2.3.4.5", "", ".", "...", "1", "+1.+2.+3", "01.002.0003", "0.0.0", "3.16.0", "1e1.0.0", "0x1.0.0", "1.2.３", "4294967297.0.0", "-0.0.0", "1 .2.3", "1.2.3\0",
	];
	let mut local = Local::default();
	for s in boundary {
		let mut p = P { class: "string", s: Some(Arc::from(s)), ..Default::default() };
		p.n[0] = 2;
		let empty = Arc::new(vec![]);
		eval_case("version", o_version, &empty, &p, || format!("{:?}", s), &mut local);
	}
	local.merge();
	// very many components (a count kept in 8 or 16 bits wraps to 3 at 259 and 65,539)
	{
		let mut local = Local::default();
		for n in [4usize, 5, 255, 256, 257, 258, 259, 260, 515, 65_538, 65_539, 65_540] {
			for tail in ["0", "x", ""] {
				let mut s = String::from("2.0.0");
				for _ in 3..n {
					s.push('.');
					s.push_str(tail);
				}
				let mut p = P { class: "string", s: Some(Arc::from(s.as_str())), ..Default::default() };
				p.n[0] = 2;
				let empty = Arc::new(vec![]);
				eval_case("version", o_version, &empty, &p, || format!("2.0.0 followed by {} more components {:?}", n - 3, tail), &mut local);
			}
		}
		local.merge();
	}
	// structured sweep: one long component at each of up to four positions, the others from the small menu
	let (small, long) = component_menus();
	let small2 = small.clone();
	par_each(long.into_iter(), move |lc, local| {
		let mut n = 0u64;
		let mut cands: Vec<String> = vec![lc.clone()];
		for a in &small2 {
			cands.push(format!("{}.{}", lc, a));
			cands.push(format!("{}.{}", a, lc));
			for b in &small2 {
				cands.push(format!("{}.{}.{}", lc, a, b));
				cands.push(format!("{}.{}.{}", a, lc, b));
				cands.push(format!("{}.{}.{}", a, b, lc));
				cands.push(format!("{}.{}.{}.{}", a, b, lc, a));
			}
		}
		for s in cands {
			n += 1;
			if let Err(first) = check_string_caught(&s) {
				let mut p = P { class: "string", s: Some(Arc::from(s.as_str())), ..Default::default() };
				p.n[0] = 2;
				report(p, first, local);
			}
		}
		local.evaluations += n;
		local.transitions += 2 * n;
		local.bulk += n;
		local.nontrivial += n;
		local.outcomes.insert(104);
		local.states.insert(fnv_mix(4, lc.len() as u64));
	});
	cx.sample(json!({"gte": "Version(3,7,x).gte(3,8) == false, .lt == true (one of 2^32 pairs)"}));
	cx.sample(json!({"display": "parse(display(Version(255,0,17))) for both Version types (one of 2^24)"}));
	cx.sample(json!({"string": "\"1.+2.05\" -> liberal zone; \"1.2\" -> must be Err; \"0.256.0\" -> must be Err"}));
	finish(cx);
}
