//! C03: every decoded frame field equals the bytes at its spec offset for the version.

use std::sync::Arc;

use serde_json::json;

use crate::gen::*;
use crate::inc::*;
use crate::rec::*;
use crate::spec::{self, Kind, Ty};
use crate::util::*;

/// A replay in which the events of `kind` carry, in field `row`, the values `values`
/// (every character / item slot sees every value once).
fn sweep_doc(v: (u8, u8), kind: Kind, row: &spec::Row, values: &[u32], fill: Fill) -> Vec<u8> {
	let ports = vec![pc(0, false), PortCfg { port: 3, ics: true, ptype: 1 }];
	let mut abs = base_replay(v, ports, values.len());
	abs.fill = fill;
	if kind == Kind::Item {
		for f in abs.frames.iter_mut() {
			f.items = 2;
		}
	}
	abs.metadata = None;
	let mut rec = record(&abs);
	let mut n = 0usize;
	let mut frame_of = 0usize;
	let mut last_row = usize::MAX;
	let mut c = 0usize;
	for ev in rec.doc.events.iter_mut() {
		if ev.code != kind.code() {
			continue;
		}
		let r = match ev.tag {
			Tag::FStart { row } | Tag::FEnd { row } | Tag::Pre { row, .. } | Tag::Post { row, .. } | Tag::Item { row, .. } => row,
			_ => continue,
		};
		if r != last_row {
			last_row = r;
			frame_of = r;
			c = 0;
		}
		let val = values[(frame_of + c) % values.len()];
		c += 1;
		let off = row.spec_off - 1;
		spec::encode(row.ty, val, &mut ev.payload[off..]);
		n += 1;
	}
	assert!(n > 0);
	rec.doc.assemble()
}

fn values_for(ty: Ty, quick16: bool) -> Vec<Vec<u32>> {
	match ty.width() {
		1 => vec![(0..256u32).collect()],
		2 => {
			if quick16 {
				// boundary values of every byte lane
				let mut v: Vec<u32> = vec![];
				for hi in [0u32, 1, 0x7F, 0x80, 0xFE, 0xFF] {
					for lo in [0u32, 1, 0x7F, 0x80, 0xFE, 0xFF] {
						v.push(hi << 8 | lo);
					}
				}
				for b in 0..16 {
					v.push(1 << b);
					v.push(0xFFFF ^ (1 << b));
				}
				v.sort();
				v.dedup();
				vec![v]
			} else {
				(0..16u32).map(|c| (c * 4096..(c + 1) * 4096).collect()).collect()
			}
		}
		_ => {
			let mut v: Vec<u32> = vec![];
			for b in 0..32 {
				v.push(1 << b);
				v.push(!(1u32 << b));
			}
			v.extend_from_slice(&SPECIALS);
			v.extend_from_slice(&[0, u32::MAX, 0x7FFF_FFFF, 0x8000_0000, 0x0102_0304, 0xFFFE_FDFC]);
			vec![v]
		}
	}
}

pub fn run() {
	let cx = ctx();
	match bind_fixtures() {
		Ok((b, c, names)) => cx.note("model_bound_to_fixtures", json!({"replays_walked_with_spec_sizes": b, "of_which_canonical_reemission_is_byte_identical": c, "files": names})),
		Err(e) => crate::common::machinery(&e),
	}
	cx.note("rule", json!("(a) all 784 versions x 4 fill patterns (position-unique A, complement B, all-ones, IEEE specials) with 2 frames / 3 characters / items; (b) per field, at the newest and at the oldest version containing it (thorough: at every layout-class edge containing it): all 256 values of every 8-bit field, all 65536 values of every 16-bit field (quick: 68 lane-boundary values), (c) 32 walking ones, 32 walking zeros, IEEE specials and extremes for every 32-bit field; each decoded column compared with the big-endian bytes at the SPEC offset, column present iff version >= since; (d) all 784 versions through the event-by-event API (columns and row view after every event); (e) the C04 history exploration and the cross-product replays (absences, returns, rollbacks, items) through the same leaf-by-leaf comparison, columns and finished row view; checked on Game.frames and on the Arrow struct array addressed by field name; non-trivial = every case (all carry distinct field values)"));
	cx.note("exhaustive", json!(true));
	cx.note("assumptions", json!(["32-bit fields are not enumerated over all 2^32 values; the decode path is value-oblivious, which the complete 8/16-bit sweeps corroborate but do not prove", "spec tables are hand-transcribed from the Slippi SPEC and self-checked (literal offset == running sum) at start-up"]));
	let mut jobs: Vec<(String, Arc<Vec<u8>>, &'static str)> = vec![];
	for v in spec::v_all() {
		for fill in [Fill::A, Fill::B, Fill::Ones, Fill::Special] {
			let abs = per_version_replay(v, fill);
			jobs.push((abs.describe(), Arc::new(record(&abs).doc.assemble()), "allversions"));
		}
	}
	let edges = spec::v_edge();
	let mut sweeps: Vec<((u8, u8), Kind, spec::Row, Vec<u32>)> = vec![];
	for kind in spec::KINDS {
		for row in spec::layout(kind) {
			let since = if spec::gte(row.since, kind.since()) { row.since } else { kind.since() };
			let mut versions: Vec<(u8, u8)> = vec![since, spec::MAX];
			if !cx.quick() {
				versions.extend(edges.iter().copied().filter(|e| spec::gte(*e, since)));
			}
			versions.sort();
			versions.dedup();
			for v in versions {
				for vals in values_for(row.ty, cx.quick()) {
					sweeps.push((v, kind, *row, vals));
				}
			}
		}
	}
	cx.note("field_sweeps", json!(sweeps.len()));
	let jobs = std::sync::Mutex::new(jobs);
	// build sweep documents in parallel (they are the expensive part)
	par_each(sweeps.into_iter(), |(v, kind, row, vals), local| {
		let bytes = Arc::new(sweep_doc(v, kind, &row, &vals, Fill::A));
		let mut p = P { class: "sweep", ..Default::default() };
		p.n[0] = A_ONESHOT;
		let label = format!("sweep v{}.{} {}.{} ({} values {:#x}..={:#x})", v.0, v.1, kind.name(), row.path, vals.len(), vals[0], vals[vals.len() - 1]);
		eval_case("model", o_model, &bytes, &p, || label, local);
	});
	let jobs = jobs.into_inner().unwrap();
	par_each(jobs.into_iter(), |(label, bytes, class), local| {
		let mut p = P { class, ..Default::default() };
		p.n[0] = A_ONESHOT;
		eval_case("model", o_model, &bytes, &p, || label.clone(), local);
		let p2 = P { class, ..Default::default() };
		eval_case("arrow", super::c14::o_arrow, &bytes, &p2, || label, local);
	});
	// fixtures: real recorder output
	let fx: Vec<_> = fixtures().into_iter().filter(|f| f.rg.is_some()).collect();
	par_each(fx.into_iter(), |f, local| {
		let bytes = Arc::new(f.bytes);
		let mut p = P { class: "fixture", ..Default::default() };
		p.n[0] = A_ONESHOT;
		let path = f.path.clone();
		eval_case("model", o_model, &bytes, &p, || path, local);
	});
	// the same fields through the in-progress view of the event-by-event API, for every version
	{
		let mut cases = vec![];
		for v in spec::v_all() {
			cases.push(per_version_replay(v, Fill::A));
		}
		par_each(cases.into_iter(), |abs, local| {
			let bytes = Arc::new(record(&abs).doc.assemble());
			let mut p = P { class: "allversions-incremental", ..Default::default() };
			p.n[0] = A_ROWS | A_TRANSPOSE;
			p.n[4] = -1;
			eval_case("incremental", o_incremental, &bytes, &p, || abs.describe(), local);
		});
	}
	// fields against the bytes also where characters come and go: the history exploration and the cross
	// product of the optional dimensions (one-shot reader against the reference walker, every leaf)
	super::c04::run_histories(A_ONESHOT | A_TRANSPOSE, 0, false);
	finish(cx);
}
