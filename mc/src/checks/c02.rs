//! C02: .slp -> .slpp -> .slp is lossless under every compression option.

use std::sync::Arc;

use serde_json::json;

use crate::common::*;
use crate::gen::*;
use crate::ops::*;
use crate::rec::*;
use crate::spec;
use crate::util::*;

pub const ORACLES: &[(&str, Oracle)] = &[("slpp_roundtrip", o_slpp_roundtrip)];

pub fn expected_hash(bytes: &[u8]) -> String {
	format!("xxh3:{:016x}", xxhash_rust::xxh3::xxh3_64(bytes))
}

pub fn o_slpp_roundtrip(input: &[u8], p: &P) -> Out {
	let rg = domain(input, "C02");
	let mut out = out_from(&rg);
	let r = catch(|| -> Result<u64, (String, String)> {
		let e = |k: &str, m: String| (k.to_string(), m);
		let g1 = read_slp(input, false, p.hash).map_err(|f| e(&format!("read-failed:{}", f.key()), f.describe()))?;
		let g1b = read_slp(input, false, p.hash).map_err(|f| e(&format!("read-failed:{}", f.key()), f.describe()))?;
		if p.hash {
			let want = expected_hash(&input[..rg.consumed]);
			if g1.hash.as_deref() != Some(want.as_str()) {
				return Err(e("hash", format!("hash {:?}, expected {}", g1.hash, want)));
			}
		} else if g1.hash.is_some() {
			return Err(e("hash", format!("hash {:?} reported although not requested", g1.hash)));
		}
		let a = write_slpp(g1b, p.comp).map_err(|f| e(&format!("slpp-write-failed:{}", f.key()), format!("peppi::write failed: {}", f.describe())))?;
		// the archive is read back through an environment-owned reader (p.n[1..] = read schedule)
		slpp_prelude(&a, false);
		let rd = crate::env::EnvReader::new(&a, crate::inc::sched_of(p));
		let g2 = read_slpp_from(rd, false).map_err(|f| e(&format!("slpp-read-failed:{}", f.key()), format!("peppi::read of the written archive failed: {}", f.describe())))?;
		if g2.hash != g1.hash {
			return Err(e("hash-carried", format!("hash after .slpp {:?} != before {:?}", g2.hash, g1.hash)));
		}
		let q1 = g1.quirks.map_or(false, |q| q.double_game_end);
		let q2 = g2.quirks.map_or(false, |q| q.double_game_end);
		if q1 != q2 {
			return Err(e("quirks", format!("quirks after .slpp {:?} != before {:?}", g2.quirks, g1.quirks)));
		}
		let w = write_slp(&g2).map_err(|f| e(&format!("write-failed:{}", f.key()), format!("writing the game read from .slpp failed: {}", f.describe())))?;
		if let Some(d) = first_diff(input, &w) {
			return Err(e("bytes-differ", format!(".slp -> .slpp -> .slp differs from the input: first difference at byte {} (input {} bytes, output {} bytes)", d, input.len(), w.len())));
		}
		games_equal(&g1, &g2, true).map_err(|m| e("game-differs", m))?;
		Ok(xx(&a[..a.len().min(4096)]) ^ a.len() as u64)
	});
	match r {
		Ok(Ok(o)) => out.obs = o,
		Ok(Err((k, m))) => {
			out.obs = 7;
			out.viol = viol("slpp_roundtrip", p, &k, m)
		}
		Err(pn) => {
			out.obs = 8;
			out.viol = viol("slpp_roundtrip", p, &pn.key(), format!("panic: {}", pn.msg))
		}
	}
	out
}

pub fn corner_replays(v: (u8, u8)) -> Vec<(AbsReplay, &'static str)> {
	// full cross product of the optional parts: frames x metadata x Game End x Gecko codes
	let mut out = vec![];
	let base = per_version_replay(v, Fill::A);
	for frames in [true, false] {
		for (meta, mname) in [(Some(default_meta()), ""), (None, "no-metadata"), (Some(vec![]), "empty-metadata")] {
			for ends in [1u8, 0, 2] {
				for gecko in [0u32, 700, 1024] {
					if gecko != 0 && !spec::gte(v, (3, 3)) {
						continue;
					}
					if gecko == 1024 && !(frames && mname.is_empty()) {
						continue; // the block-filling list: with frames and metadata, all three end variants
					}
					let gecko_live = gecko;
					let gecko = gecko != 0;
					let mut a = base.clone();
					if !frames {
						a.frames.clear();
					}
					a.metadata = meta.clone();
					a.ends = ends;
					if gecko {
						a.gecko = Gecko::Live { live: gecko_live, nonzero_pad: gecko_live == 700 };
					}
					let class: &'static str = match (frames, mname, ends, gecko) {
						(true, "", 1, false) => "base",
						(false, "", 1, false) => "zero-frames",
						(true, m, 1, false) if !m.is_empty() => if m == "no-metadata" { "no-metadata" } else { "empty-metadata" },
						(true, "", 0, false) => "no-end",
						(true, "", 2, false) => "double-end",
						(true, "", 1, true) => "gecko",
						_ => "combined-corners",
					};
					out.push((a, class));
				}
			}
		}
	}
	out
}

pub fn run() {
	let cx = ctx();
	cx.note("rule", json!("recorder replays x compression in {none, LZ4, ZSTD} x hash {off, on}: slippi::write(peppi::read(peppi::write(slippi::read(x)))) == x, hash and quirks carried, the re-read game equal field by field; the full cross product of the optional parts per version {frames / none} x {metadata / none / empty} x {0,1,2 Game Ends} x {Gecko codes / none}; the archive read back through an environment-owned reader under chunked reads (1,2,3,7,511,513 bytes; thorough: more sizes and every two-piece split); non-trivial = has an absence, rollback, item, gecko, missing/double end or no metadata"));
	cx.note("bounds", json!({"quick": "all 784 versions x base replay x none-compression; 25 class representatives x corner list x 3 compressions x 2 hash; history exploration at 5 versions x {P1P2, P1icsP3} x <=2 frames x <=1 deviation", "thorough": "layout-class edges x corner list x 3 x 2; history exploration (quick depth of C04: 25 versions x 6 port configs x <=3 frames x <=2 deviations) x 3 compressions"}));
	cx.note("exhaustive", json!(true));
	cx.note("assumptions", json!(["arrow2 IPC, lz4, zstd, tar and serde_json are trusted base; they are exercised, not verified in isolation"]));
	let mut cases: Vec<(AbsReplay, P)> = vec![];
	let versions = if cx.quick() { spec::v_rep() } else { spec::v_edge() };
	for v in &versions {
		for (a, class) in corner_replays(*v) {
			for comp in 0..3u8 {
				for hash in [false, true] {
					cases.push((a.clone(), P { comp, hash, class, ..Default::default() }));
				}
			}
		}
	}
	for v in spec::v_all() {
		cases.push((per_version_replay(v, Fill::B), P { comp: 0, hash: true, class: "allversions", ..Default::default() }));
	}
	// metadata far larger than any recorder writes (77 KB, 260 KB): JSON entries beyond 64 KiB
	for n in [300usize, 1000] {
		let mut a = base_replay((3, 16), vec![pc(0, false), pc(1, false)], 1);
		a.metadata = Some((0..n).map(|i| (format!("key{:04}", i), crate::ubj::MVal::Str("v".repeat(250)))).collect());
		for comp in 0..3u8 {
			cases.push((a.clone(), P { comp, hash: comp == 1, class: "large-metadata", ..Default::default() }));
		}
	}
	// the archive read back under fragmented reads
	{
		use crate::env::Sched;
		let mut scheds = vec![Sched::Chunk(1), Sched::Chunk(2), Sched::Chunk(3), Sched::Chunk(7), Sched::Chunk(511), Sched::Chunk(513)];
		if !cx.quick() {
			for k in [4usize, 5, 8, 15, 16, 17, 100, 512, 1000, 4096] {
				scheds.push(Sched::Chunk(k));
			}
		}
		for v in [(1u8, 0u8), (2, 2), (3, 7), (3, 16)] {
			let mut a = per_version_replay(v, Fill::A);
			if spec::gte(v, (3, 3)) {
				a.gecko = Gecko::Live { live: 700, nonzero_pad: true };
			}
			a.ends = 2;
			for sc in &scheds {
				for comp in 0..3u8 {
					let mut p = P { comp, hash: true, class: "fragmented-read", ..Default::default() };
					crate::inc::set_sched(&mut p, sc);
					cases.push((a.clone(), p));
				}
			}
			if !cx.quick() && v == (3, 16) {
				// every two-piece split of the archive (offsets beyond its end are no-ops)
				for at in 1..70_000usize {
					let mut p = P { comp: (at % 3) as u8, hash: false, class: "fragmented-read", ..Default::default() };
					crate::inc::set_sched(&mut p, &Sched::SplitAt(at));
					cases.push((a.clone(), p));
				}
			}
		}
	}
	if cx.quick() {
		for v in [(0, 1), (2, 0), (2, 2), (3, 0), (3, 16)] {
			for ports in [vec![pc(0, false), pc(1, false)], vec![pc(0, true), pc(2, false)]] {
				let sp = crate::hist::HistSpace { regime: spec::regime(v), ports: ports.clone(), max_frames: 2, min_frames: 1, budget: 1, free_presence: false, max_items: 1 };
				for (h, _) in crate::hist::histories(&sp) {
					let mut a = base_replay(v, ports.clone(), 0);
					a.frames = h;
					for comp in 0..3u8 {
						cases.push((a.clone(), P { comp, hash: comp == 1, class: "history", ..Default::default() }));
					}
				}
			}
		}
	} else {
		history_replays(Depth::Quick, |a, _| {
			for comp in 0..3u8 {
				cases.push((a.clone(), P { comp, hash: comp == 2, class: "history", ..Default::default() }));
			}
		});
	}
	for (i, a) in universe(cx.quick()).into_iter().enumerate() {
		let mut p = P { comp: (i % 3) as u8, hash: i % 2 == 0, class: "universe", ..Default::default() };
		if i % 5 == 0 {
			crate::inc::set_sched(&mut p, &crate::env::Sched::Chunk(3));
		}
		cases.push((a, p));
	}
	for (i, a) in long_replays(cx.quick()).into_iter().enumerate() {
		if a.frames.len() > 1000 && a.frames[0].items > 100 {
			continue; // the 67,100-item game goes through C01/C04 only
		}
		cases.push((a, P { comp: (i % 3) as u8, hash: false, class: "long-game", ..Default::default() }));
	}
	par_each(cases.into_iter(), |(abs, p), local| {
		let bytes = Arc::new(record(&abs).doc.assemble());
		eval_case("slpp_roundtrip", o_slpp_roundtrip, &bytes, &p, || abs.describe(), local);
	});
	finish(cx);
}
