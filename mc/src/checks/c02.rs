//! C02: .slp -> .slpp -> .slp is lossless under every compression option.

use std::sync::Arc;

use serde_json::json;

use crate::common::*;
use crate::gen::*;
use crate::ops::*;
use crate::rec::*;
use crate::spec;
use crate::util::*;

pub const ORACLES: &[(&str, Oracle)] = &[("slpp_roundtrip", o_slpp_roundtrip)];

pub fn expected_hash(bytes: &[u8]) -> String {
	format!("xxh3:{:016x}", xxhash_rust::xxh3::xxh3_64(bytes))
}

pub fn o_slpp_roundtrip(input: &[u8], p: &P) -> Out {
	let rg = domain(input, "C02");
	let mut out = out_from(&rg);
	let r = catch(|| -> Result<u64, (String, String)> {
		let e = |k: &str, m: String| (k.to_string(), m);
		let g1 = read_slp(input, false, p.hash).map_err(|f| e(&format!("read-failed:{}", f.key()), f.describe()))?;
		let g1b = read_slp(input, false, p.hash).map_err(|f| e(&format!("read-failed:{}", f.key()), f.describe()))?;
		if p.hash {
			let want = expected_hash(&input[..rg.consumed]);
			if g1.hash.as_deref() != Some(want.as_str()) {
				return Err(e("hash", format!("hash {:?}, expected {}", g1.hash, want)));
			}
		} else if g1.hash.is_some() {
			return Err(e("hash", format!("hash {:?} reported although not requested", g1.hash)));
		}
		let a = write_slpp(g1b, p.comp).map_err(|f| e(&format!("slpp-write-failed:{}", f.key()), format!("peppi::write failed: {}", f.describe())))?;
		let g2 = read_slpp(&a, false).map_err(|f| e(&format!("slpp-read-failed:{}", f.key()), format!("peppi::read of the written archive failed: {}", f.describe())))?;
		if g2.hash != g1.hash {
			return Err(e("hash-carried", format!("hash after .slpp {:?} != before {:?}", g2.hash, g1.hash)));
		}
		let q1 = g1.quirks.map_or(false, |q| q.double_game_end);
		let q2 = g2.quirks.map_or(false, |q| q.double_game_end);
		if q1 != q2 {
			return Err(e("quirks", format!("quirks after .slpp {:?} != before {:?}", g2.quirks, g1.quirks)));
		}
		let w = write_slp(&g2).map_err(|f| e(&format!("write-failed:{}", f.key()), format!("writing the game read from .slpp failed: {}", f.describe())))?;
		if let Some(d) = first_diff(input, &w) {
			return Err(e("bytes-differ", format!(".slp -> .slpp -> .slp differs from the input: first difference at byte {} (input {} bytes, output {} bytes)", d, input.len(), w.len())));
		}
		games_equal(&g1, &g2, true).map_err(|m| e("game-differs", m))?;
		Ok(xx(&a[..a.len().min(4096)]) ^ a.len() as u64)
	});
	match r {
		Ok(Ok(o)) => out.obs = o,
		Ok(Err((k, m))) => {
			out.obs = 7;
			out.viol = viol("slpp_roundtrip", p, &k, m)
		}
		Err(pn) => {
			out.obs = 8;
			out.viol = viol("slpp_roundtrip", p, &pn.key(), format!("panic: {}", pn.msg))
		}
	}
	out
}

pub fn corner_replays(v: (u8, u8)) -> Vec<(AbsReplay, &'static str)> {
	let ports = vec![pc(0, false), PortCfg { port: 2, ics: true, ptype: 1 }];
	let mut out = vec![];
	let base = per_version_replay(v, Fill::A);
	out.push((base.clone(), "base"));
	let mut a = base.clone();
	a.frames.clear();
	out.push((a, "zero-frames"));
	let mut a = base.clone();
	a.metadata = None;
	out.push((a, "no-metadata"));
	let mut a = base.clone();
	a.metadata = Some(vec![]);
	out.push((a, "empty-metadata"));
	let mut a = base.clone();
	a.ends = 0;
	out.push((a, "no-end"));
	let mut a = base.clone();
	a.ends = 2;
	out.push((a, "double-end"));
	if spec::gte(v, (3, 3)) {
		let mut a = base.clone();
		a.gecko = Gecko::Live { live: 700, nonzero_pad: true };
		out.push((a, "gecko"));
	}
	let mut a = base_replay(v, ports, 0);
	a.metadata = None;
	a.ends = 0;
	out.push((a, "nothing"));
	out
}

pub fn run() {
	let cx = ctx();
	cx.note("rule", json!("recorder replays x compression in {none, LZ4, ZSTD} x hash {off, on}: slippi::write(peppi::read(peppi::write(slippi::read(x)))) == x, hash and quirks carried, the re-read game equal field by field; corner list per version {zero frames, no metadata, empty metadata, no end, double end, gecko, nothing at all}; non-trivial = has an absence, rollback, item, gecko, missing/double end or no metadata"));
	cx.note("bounds", json!({"quick": "all 784 versions x base replay x none-compression; 25 class representatives x corner list x 3 compressions x 2 hash; history exploration at 5 versions x {P1P2, P1icsP3} x <=2 frames x <=1 deviation", "thorough": "layout-class edges x corner list x 3 x 2; history exploration (quick depth of C04: 25 versions x 6 port configs x <=3 frames x <=2 deviations) x 3 compressions"}));
	cx.note("exhaustive", json!(true));
	cx.note("assumptions", json!(["arrow2 IPC, lz4, zstd, tar and serde_json are trusted base; they are exercised, not verified in isolation"]));
	let mut cases: Vec<(AbsReplay, P)> = vec![];
	let versions = if cx.quick() { spec::v_rep() } else { spec::v_edge() };
	for v in &versions {
		for (a, class) in corner_replays(*v) {
			for comp in 0..3u8 {
				for hash in [false, true] {
					cases.push((a.clone(), P { comp, hash, class, ..Default::default() }));
				}
			}
		}
	}
	for v in spec::v_all() {
		cases.push((per_version_replay(v, Fill::B), P { comp: 0, hash: true, class: "allversions", ..Default::default() }));
	}
	if cx.quick() {
		for v in [(0, 1), (2, 0), (2, 2), (3, 0), (3, 16)] {
			for ports in [vec![pc(0, false), pc(1, false)], vec![pc(0, true), pc(2, false)]] {
				let sp = crate::hist::HistSpace { regime: spec::regime(v), ports: ports.clone(), max_frames: 2, min_frames: 1, budget: 1, free_presence: false, max_items: 1 };
				for (h, _) in crate::hist::histories(&sp) {
					let mut a = base_replay(v, ports.clone(), 0);
					a.frames = h;
					for comp in 0..3u8 {
						cases.push((a.clone(), P { comp, hash: comp == 1, class: "history", ..Default::default() }));
					}
				}
			}
		}
	} else {
		history_replays(Depth::Quick, |a, _| {
			for comp in 0..3u8 {
				cases.push((a.clone(), P { comp, hash: comp == 2, class: "history", ..Default::default() }));
			}
		});
	}
	par_each(cases.into_iter(), |(abs, p), local| {
		let bytes = Arc::new(record(&abs).doc.assemble());
		eval_case("slpp_roundtrip", o_slpp_roundtrip, &bytes, &p, || abs.describe(), local);
	});
	finish(cx);
}
