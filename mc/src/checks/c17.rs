//! C17: serialising any accepted game gives a self-consistent file and a fixed point.

use std::sync::Arc;

use serde_json::json;

use crate::checks::c08::{finish_out, unknown_event, UNKNOWN};
use crate::ops::*;
use crate::rec::*;
use crate::spec;
use crate::ubj;
use crate::util::*;

pub const ORACLES: &[(&str, Oracle)] = &[("fixpoint", o_fixpoint)];

pub fn o_fixpoint(input: &[u8], p: &P) -> Out {
	let mut out = Out { transitions: 1, nontrivial: true, ..Default::default() };
	let g = match read_slp(input, false, false) {
		Ok(g) => g,
		Err(Fail::Err(m)) => {
			// not accepted: outside the property's quantifier (counted by the driver) - provided the refusal is
			// the reader's verdict on the BYTES: the same bytes from a plain in-memory cursor must be refused too
			// (`read_slp` serves them in pieces, from an offset, with an interrupted call, after other calls)
			if let Ok(Ok(_)) = catch(|| peppi::io::slippi::read(std::io::Cursor::new(input), None)) {
				out.obs = 4;
				out.viol = crate::common::viol("fixpoint", p, "acceptance-depends-on-environment", format!("the reader accepts these bytes from a plain cursor but refused them as served by the harness's rotated read environment: {}", m));
				return out;
			}
			out.obs = 2;
			return out;
		}
		Err(Fail::Panic(pn)) => {
			out.obs = 3;
			out.viol = crate::common::viol("fixpoint", p, &pn.key(), format!("panic while reading: {}", pn.msg));
			return out;
		}
	};
	out.transitions = 3;
	let r = catch(|| -> Result<u64, (String, String)> {
		let e = |k: &str, m: String| (k.to_string(), m);
		let w = write_slp(&g).map_err(|f| e(&format!("write-failed:{}", f.key()), format!("writing an accepted game failed: {}", f.describe())))?;
		// declared raw length vs. measured raw element; the tail is encoded by the harness's own UBJSON writer
		let tail: Vec<u8> = match &g.metadata {
			Some(m) => {
				let tree = ubj::from_json(m).map_err(|m| e("model", m))?;
				let mut t = ubj::metadata_element(&tree);
				t.push(b'}');
				t
			}
			None => vec![b'}'],
		};
		if w.len() < 15 + tail.len() || w[w.len() - tail.len()..] != tail[..] {
			return Err(e("tail", "the written file does not end with the reference encoding of the metadata element and the closing brace".into()));
		}
		let measured = w.len() - 15 - tail.len();
		let declared = u32::from_be_bytes([w[11], w[12], w[13], w[14]]) as usize;
		if declared != measured {
			return Err(e("declared-raw-length", format!("the written file declares a raw length of {} but its raw element is {} bytes long", declared, measured)));
		}
		let g2 = read_slp(&w, false, false).map_err(|f| e(&format!("reread-failed:{}", f.key()), format!("the written file cannot be read again: {}", f.describe())))?;
		games_equal(&g, &g2, false).map_err(|m| e("reread-differs", format!("the re-read game differs: {}", m)))?;
		let w2 = write_slp(&g2).map_err(|f| e("rewrite-failed", f.describe()))?;
		if w2 != w {
			return Err(e("not-a-fixed-point", format!("writing the re-read game differs from the first written file at byte {:?}", crate::common::first_diff(&w, &w2))));
		}
		Ok(xx(&w))
	});
	finish_out(&mut out, "fixpoint", p, r);
	out
}

/// all orderings of a frame's inner events keeping each character's pre before its post
fn permutations(inner: &[Ev], must_start_with_pre: bool) -> Vec<Vec<Ev>> {
	let n = inner.len();
	let mut out = vec![];
	let mut idx: Vec<usize> = (0..n).collect();
	fn key(e: &Ev) -> Option<(usize, bool, bool)> {
		match e.tag {
			Tag::Pre { pi, fo, .. } => Some((pi, fo, false)),
			Tag::Post { pi, fo, .. } => Some((pi, fo, true)),
			_ => None,
		}
	}
	fn heap(k: usize, idx: &mut Vec<usize>, inner: &[Ev], must: bool, out: &mut Vec<Vec<Ev>>) {
		if k == 1 {
			// validity
			if must && !matches!(inner[idx[0]].tag, Tag::Pre { .. }) {
				return;
			}
			for (pos, i) in idx.iter().enumerate() {
				if let Some((pi, fo, true)) = key(&inner[*i]) {
					// its pre must come earlier
					let pre_pos = idx.iter().position(|j| key(&inner[*j]) == Some((pi, fo, false)));
					if pre_pos.map_or(true, |pp| pp > pos) {
						return;
					}
				}
			}
			// items keep their relative order (they are identical in kind; order defines the list)
			out.push(idx.iter().map(|i| inner[*i].clone()).collect());
			return;
		}
		heap(k - 1, idx, inner, must, out);
		for i in 0..k - 1 {
			if k % 2 == 0 {
				idx.swap(i, k - 1);
			} else {
				idx.swap(0, k - 1);
			}
			heap(k - 1, idx, inner, must, out);
		}
	}
	if n == 0 {
		return vec![vec![]];
	}
	heap(n, &mut idx, inner, must_start_with_pre, &mut out);
	out
}

pub fn run() {
	let cx = ctx();
	cx.note("rule", json!("metadata strings of every length 0..=255 bytes as key and as value (canonical, no Game End, unknown event); irregular-but-tolerated inputs: every permutation of a frame's pre/post/item events that keeps each character's pre before its post (before 2.2: starting with a pre), x junk after Game End inside the raw element (1, 2, size(Game End)+1 bytes that are not a second Game End), x unknown events (inside the frame, before Game End, after Game End, between two Message Splitter blocks of the Gecko list, a whole split unknown message ahead of the Gecko list), x Game End absent or doubled, x metadata absent - all combinations, in all three framing regimes, on three base histories (follower absent; leader absent + whole Ice-Climbers pair absent; Gecko list filling its last block exactly); plus the canonical history space of C04 and Gecko lists of 512/1024/1536/700/66000 bytes. For each input the reader accepts: the written .slp declares exactly the measured length of its raw element (measured from the file length and the harness's own encoding of the metadata), reads again, the re-read game equals the first on start, end, metadata, gecko codes and all frame data, and writing it again reproduces the written file. Every case is non-trivial (carries at least a non-canonical order or another irregularity, except the identity permutation)"));
	cx.note("exhaustive", json!(true));
	cx.note("assumptions", json!(["inputs the reader rejects are outside the property's quantifier; their number is reported as not_accepted"]));
	let versions: Vec<(u8, u8)> = if cx.quick() { vec![(0, 1), (2, 0), (2, 2), (3, 0), (3, 16)] } else { spec::v_rep() };
	let mut jobs: Vec<(Vec<u8>, String, &'static str)> = vec![];
	for v in versions {
		let regime = spec::regime(v);
		let ports = vec![pc(0, false), PortCfg { port: 2, ics: true, ptype: 1 }];
	  for variant in 0..3usize {
		let mut a = base_replay(v, ports.clone(), 2);
		a.frames[1].present[1][1] = false;
		if regime == 2 {
			a.frames[0].items = 1;
		}
		if spec::gte(v, (3, 3)) {
			a.gecko = Gecko::Live { live: 600, nonzero_pad: true };
		}
		match variant {
			1 => {
				// a leader absent from the permuted frame, the whole pair absent from the other
				a.frames[0].present[0][0] = false;
				a.frames[1].present[1] = [false, false];
				if regime == 2 {
					a.frames[1].items = 2;
				}
			}
			2 => {
				// a Gecko list that fills its last block exactly
				if !spec::gte(v, (3, 3)) {
					continue;
				}
				a.gecko = Gecko::Live { live: 1024, nonzero_pad: false };
				a.frames[0].present[1][0] = false;
			}
			_ => {}
		}
		if cx.quick() && variant > 0 && !matches!(v, (0, 1) | (2, 2) | (3, 16)) {
			continue;
		}
		let rec = record(&a);
		let doc = rec.doc.clone();
		// split events into prefix / frame0 inner / ... / suffix
		let row_of = |e: &Ev| match e.tag {
			Tag::Pre { row, .. } | Tag::Post { row, .. } | Tag::Item { row, .. } => Some(row),
			_ => None,
		};
		for target_row in 0..2usize {
			let inner: Vec<Ev> = doc.events.iter().filter(|e| row_of(e) == Some(target_row)).cloned().collect();
			let first = doc.events.iter().position(|e| row_of(e) == Some(target_row)).unwrap();
			let perms = permutations(&inner, regime == 0);
			for perm in perms {
				let mut d = doc.clone();
				for (k, e) in perm.iter().enumerate() {
					d.events[first + k] = e.clone();
				}
				for junk in 0..4usize {
					for unk in 0..6usize {
						for ends in [1u8, 0, 2] {
							for meta in [true, false] {
								if cx.quick() && (junk > 0) as usize + (unk > 0) as usize + (ends == 0) as usize + (!meta) as usize > 2 {
									continue;
								}
								let mut d2 = d.clone();
								let end_sz = spec::game_end_size(v);
								if ends == 0 {
									d2.events.retain(|e| e.code != 0x39);
								}
								if ends == 2 {
									// the doubled Game End some recorders write: irregular on its own, combined with the
									// permutations, an unknown event (also between the two ends) and missing metadata
									if junk > 0 {
										continue;
									}
									let ge = d2.events.iter().find(|e| e.code == 0x39).cloned().unwrap();
									d2.events.push(ge);
								}
								if junk > 0 {
									if ends == 0 {
										continue; // junk "after Game End" needs one
									}
									let n = [0, 1, 2, end_sz + 1][junk];
									d2.raw_junk = (0..n).map(|k| if k == 0 { 0x3F } else { 0x39 }).collect();
								}
								if unk == 5 {
									// a whole unknown message cut into two splitter blocks, ahead of everything else
									if junk > 0 {
										continue;
									}
									if !meta {
										d2.metadata = None;
									}
									let bytes = crate::checks::c08::with_wrapped_unknown(&d2, 0x3E, 600, 1);
									let class: &'static str = "split-unknown-event";
									jobs.push((bytes, format!("v{}.{} variant {} row {} split unknown message first, ends={} meta={}", v.0, v.1, variant, target_row, ends, meta), class));
									continue;
								}
								if unk > 0 {
									// unk 4: between two Message Splitter blocks of the Gecko list (needs two blocks)
									let split_at = d2.events.iter().position(|e| e.code == 0x10).filter(|i| d2.events.get(i + 1).map_or(false, |e| e.code == 0x10));
									if unk == 4 && split_at.is_none() {
										continue;
									}
									let (code, size) = UNKNOWN[unk.min(3)];
									d2.table.push((code, size));
									// inside the frame / just before Game End / after Game End (the last event of the raw element)
									let at = match unk {
										1 => first + 1,
										2 => d2.events.len() - (ends.min(1) as usize), // with two ends: between them
										4 => split_at.unwrap() + 1,
										_ => d2.events.len(),
									};
									d2.events.insert(at, unknown_event(unk.min(3), 1));
								}
								if !meta {
									d2.metadata = None;
								}
								let class: &'static str = if ends == 0 { "no-end" } else if ends == 2 { "double-end" } else if junk > 0 { "junk-after-end" } else if unk > 0 { "unknown-event" } else if !meta { "no-metadata" } else { "permutation" };
								jobs.push((d2.assemble(), format!("v{}.{} variant {} row {} order {:?} junk={} unknown={} ends={} meta={}", v.0, v.1, variant, target_row, perm.iter().map(|e| e.tag).collect::<Vec<_>>(), junk, unk, ends, meta), class));
							}
						}
					}
				}
			}
		}
	  }
	}
	// the canonical history space as well: the fixed-point oracle looks at other things than C01's byte comparison
	crate::gen::history_replays(crate::gen::Depth::Quick, |a, _| {
		let label = a.describe();
		jobs.push((record(&a).doc.assemble(), label, "canonical-history"));
	});
	for a in crate::gen::universe(cx.quick()) {
		let label = a.describe();
		jobs.push((record(&a).doc.assemble(), label, "universe"));
	}
	for v in spec::v_rep() {
		if spec::gte(v, (3, 3)) {
			for live in [512u32, 1024, 1536, 700, 66000] {
				let mut a = crate::gen::per_version_replay(v, Fill::A);
				a.gecko = Gecko::Live { live, nonzero_pad: live == 700 };
				jobs.push((record(&a).doc.assemble(), a.describe(), "gecko"));
			}
		}
	}
	// metadata strings of EVERY length 0..=255 bytes, as key and as value (the reader and the writer each choose a
	// length encoding; they have to agree on all of them), on a canonical replay, one without Game End and one with an
	// unknown event in a frame
	for len in 0..=255usize {
		let mut a = base_replay((3, 16), vec![pc(0, false), pc(2, false)], 1);
		a.metadata = Some(vec![("k".repeat(len), crate::ubj::MVal::Str("v".repeat(255 - len))), ("x".into(), crate::ubj::MVal::Str("é".repeat(len / 2) + &"w".repeat(len % 2)))]);
		match len % 3 {
			0 => jobs.push((record(&a).doc.assemble(), format!("metadata key of {} bytes, values of {} and {} bytes", len, 255 - len, len), "meta-string-length")),
			1 => {
				a.ends = 0;
				jobs.push((record(&a).doc.assemble(), format!("metadata key of {} bytes, values of {} and {} bytes, no Game End", len, 255 - len, len), "meta-string-length"));
			}
			_ => {
				let doc = record(&a).doc;
				jobs.push((crate::checks::c08::with_unknown(&doc, &[(0, 2)]), format!("metadata key of {} bytes, values of {} and {} bytes, unknown event", len, 255 - len, len), "meta-string-length"));
			}
		}
	}
	cx.note("cases", json!(jobs.len()));
	let rejected = std::sync::atomic::AtomicU64::new(0);
	par_each(jobs.into_iter(), |(bytes, label, class), local| {
		let bytes = Arc::new(bytes);
		let p = P { class, ..Default::default() };
		let before = local.outcomes.contains(&2);
		eval_case("fixpoint", o_fixpoint, &bytes, &p, || label, local);
		let _ = before;
		if read_rejects(&bytes) {
			rejected.fetch_add(1, std::sync::atomic::Ordering::Relaxed);
		}
	});
	let rej = rejected.load(std::sync::atomic::Ordering::Relaxed);
	cx.note("not_accepted", json!(rej));
	let total = cx.stats.evaluations.load(std::sync::atomic::Ordering::Relaxed);
	if rej * 10 > total {
		crate::common::machinery(&format!("C17: {} of {} generated irregular inputs are rejected by the reader - the generator no longer produces accepted inputs (vacuous)", rej, total));
	}
	finish(cx);
}

fn read_rejects(b: &[u8]) -> bool {
	matches!(read_slp(b, false, false), Err(Fail::Err(_)))
}
