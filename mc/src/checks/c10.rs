//! C10: skip-frames parsing returns the same start, end and metadata as a full parse.

use std::sync::Arc;

use serde_json::json;

use crate::checks::c08::finish_out;
use crate::common::*;
use crate::gen::*;
use crate::ops::*;
use crate::rec::*;
use crate::spec;
use crate::util::*;

pub const ORACLES: &[(&str, Oracle)] = &[("skip", o_skip), ("skip_sparse", o_skip_sparse)];

fn same_sem(a: &peppi::game::immutable::Game, b: &peppi::game::immutable::Game, what: &str) -> Result<(), (String, String)> {
	start_eq(&a.start, &b.start, true).map_err(|m| (format!("{}-start", what), m))?;
	if a.end != b.end {
		return Err((format!("{}-end", what), format!("end differs: {:?} vs {:?}", a.end, b.end)));
	}
	if a.metadata != b.metadata {
		return Err((format!("{}-metadata", what), "metadata differs".into()));
	}
	if let (Some(x), Some(y)) = (&a.metadata, &b.metadata) {
		if serde_json::to_string(x).unwrap() != serde_json::to_string(y).unwrap() {
			return Err((format!("{}-metadata", what), "metadata key order differs".into()));
		}
	}
	Ok(())
}

fn empty_frames(g: &peppi::game::immutable::Game, rg: &crate::model::RefGame, what: &str) -> Result<(), (String, String)> {
	if g.frames.len() != 0 {
		return Err((format!("{}-frames", what), format!("skip_frames returned {} frames", g.frames.len())));
	}
	if g.frames.ports.len() != rg.ports.len() {
		return Err((format!("{}-ports", what), format!("{} empty port column sets for {} occupied ports", g.frames.ports.len(), rg.ports.len())));
	}
	for (pd, pc) in g.frames.ports.iter().zip(&rg.ports) {
		if pd.port as u8 != pc.port || pd.follower.is_some() != pc.ics {
			return Err((format!("{}-ports", what), "port column set does not match occupancy".into()));
		}
	}
	// model comparison with zero rows checks every column's length and version gate
	let mut rg0 = rg.clone();
	rg0.rows.clear();
	crate::model::compare_frames(&g.frames, &rg0, 0, true).map_err(|(k, m)| (format!("{}-{}", what, k), m))
}

/// input = a small finished replay whose payload table declares the filler event 0x7E (65,535 bytes) without
/// containing one; p.n[0] = how many filler events a sparse stream inserts after Game Start (32,769 of them
/// are 2 GiB: distances beyond 31 bits). The skip read of that stream must return the same start / end /
/// metadata as the read of the small replay, and no frames.
pub fn o_skip_sparse(input: &[u8], p: &P) -> Out {
	let rg = domain(input, "C10");
	let mut out = out_from(&rg);
	out.nontrivial = true;
	let r = catch(|| -> Result<u64, (String, String)> {
		let e = |k: &str, m: String| (k.to_string(), m);
		let small = read_slp(input, false, false).map_err(|f| e("full-read-failed", f.describe()))?;
		let n = p.n[0].max(0) as u64;
		let ins = 15 + 2 + 3 * rg.table.len() + 1 + rg.start_block.len();
		let mut head = input[..ins].to_vec();
		let raw_len = rg.raw_len_declared as u64 + n * 65_536;
		if raw_len > u32::MAX as u64 {
			crate::common::machinery("C10: sparse replay would not fit the 32-bit raw length");
		}
		head[11..15].copy_from_slice(&(raw_len as u32).to_be_bytes());
		let mut block = vec![0x7Eu8];
		block.extend((0..65_535usize).map(|i| (i % 253) as u8));
		let rd = crate::env::SparseReader { head, block, n, tail: input[ins..].to_vec(), pos: 0, bytes_read: 0, seeks: 0 };
		let sk = read_slp_from(rd, true, p.hash).map_err(|f| e(&format!("skip-read-failed:{}", f.key()), format!("skip_frames read of a replay with {} bytes between Game Start and Game End failed: {}", raw_len, f.describe())))?;
		same_sem(&small, &sk, "sparse")?;
		if sk.frames.len() != 0 {
			return Err(e("sparse-frames", "the skip_frames game has frames".into()));
		}
		Ok(n)
	});
	finish_out(&mut out, "skip_sparse", p, r);
	out
}

pub fn o_skip(input: &[u8], p: &P) -> Out {
	let rg = domain(input, "C10");
	let mut out = out_from(&rg);
	let r = catch(|| -> Result<u64, (String, String)> {
		let e = |k: &str, m: String| (k.to_string(), m);
		let full = read_slp(input, false, p.hash).map_err(|f| e("full-read-failed", f.describe()))?;
		// the skip read goes through the environment-owned reader (p.n[1..] = read schedule)
		let rd = crate::env::EnvReader::new(input, crate::inc::sched_of(p));
		let sk = read_slp_from(rd, true, p.hash).map_err(|f| e(&format!("skip-read-failed:{}", f.key()), format!("reading a finished replay with skip_frames failed: {}", f.describe())))?;
		if sk.hash != full.hash {
			return Err(e("skip-hash", format!("hash with skip_frames {:?} != hash of the full read {:?}", sk.hash, full.hash)));
		}
		same_sem(&full, &sk, "slp")?;
		empty_frames(&sk, &rg, "slp")?;
		// a stream that does not start at position 0 (replay embedded in a container): the jump must be relative
		let skp = read_slp_from(crate::env::PrefixedReader::new(input, 4099), true, p.hash).map_err(|f| e(&format!("skip-read-failed-at-offset:{}", f.key()), format!("skip_frames read fails when the reader starts at position 4099 instead of 0: {}", f.describe())))?;
		same_sem(&full, &skp, "slp-at-offset")?;
		if skp.hash != full.hash {
			return Err(e("skip-hash-at-offset", "hash differs when the reader starts at a non-zero position".into()));
		}
		if input.len() < 3000 {
			// the debug option (dump every event to a directory) next to skip_frames: still no frames
			let skd = read_slp_debug(input, true, p.hash).map_err(|f| e(&format!("skip-read-failed-with-debug:{}", f.key()), format!("skip_frames read with the debug option set failed: {}", f.describe())))?;
			same_sem(&full, &skd, "slp-with-debug-option")?;
			empty_frames(&skd, &rg, "slp-with-debug-option")?;
		}
		if p.n[0] == 9 {
			// a replay of a version newer than the writers support: nothing can be written
			return Ok(xx(&sk.start.bytes.0));
		}
		// the result can be written and re-read
		let w = write_slp(&sk).map_err(|f| e(&format!("skip-write-failed:{}", f.key()), format!("writing the skip_frames game failed: {}", f.describe())))?;
		let back = read_slp(&w, false, false).map_err(|f| e(&format!("skip-reread-failed:{}", f.key()), format!("the written skip_frames game cannot be read: {}", f.describe())))?;
		same_sem(&full, &back, "slp-reread")?;
		if back.frames.len() != 0 {
			return Err(e("slp-reread-frames", "re-read skip game has frames".into()));
		}
		// .slpp reader's skip option
		let full2 = read_slp(input, false, p.hash).map_err(|f| e("full-read-failed", f.describe()))?;
		let arch = write_slpp(full2, p.comp).map_err(|f| e(&format!("slpp-write-failed:{}", f.key()), f.describe()))?;
		let psk = read_slpp(&arch, true).map_err(|f| e(&format!("slpp-skip-read-failed:{}", f.key()), format!("peppi::read with skip_frames failed: {}", f.describe())))?;
		same_sem(&full, &psk, "slpp")?;
		empty_frames(&psk, &rg, "slpp")?;
		let w2 = write_slp(&psk).map_err(|f| e(&format!("slpp-skip-write-failed:{}", f.key()), format!("writing the .slpp skip_frames game as .slp failed: {}", f.describe())))?;
		let back2 = read_slp(&w2, false, false).map_err(|f| e(&format!("slpp-skip-reread-failed:{}", f.key()), f.describe()))?;
		same_sem(&full, &back2, "slpp-reread")?;
		// and the skip game itself through .slpp
		let arch2 = write_slpp(sk, p.comp).map_err(|f| e(&format!("skipgame-slpp-write-failed:{}", f.key()), f.describe()))?;
		let back3 = read_slpp(&arch2, false).map_err(|f| e(&format!("skipgame-slpp-read-failed:{}", f.key()), format!("the skip_frames game written as .slpp cannot be read: {}", f.describe())))?;
		same_sem(&full, &back3, "skipgame-slpp")?;
		Ok(xx(&w))
	});
	finish_out(&mut out, "skip", p, r);
	out
}

pub fn run() {
	let cx = ctx();
	cx.note("rule", json!("finished well-formed replays (Game End last): all 784 versions with a 2-frame game; layout-class edges x {gecko none / 1 block / 2 blocks / 129 blocks} x {1, 2 Game Ends} x {metadata, none, empty, non-ASCII} x histories with items and absences (so the skipped distance varies) x compute_hash {off,on} x compression x read schedule of the skip read {full, 1-, 7-, 1000-byte chunks}; compared with the full read: start, end, metadata equal; zero frames with one empty column set per occupied port (every column length 0, version gates right); the result writes, re-reads, and survives .slpp; peppi::read's skip option likewise. Non-trivial = has gecko, doubled end, no metadata, absence or items"));
	cx.note("exhaustive", json!(true));
	cx.note("assumptions", json!(["gecko codes and quirks of the skip result are not compared: the statement does not promise them"]));
	let mut cases: Vec<(AbsReplay, P)> = vec![];
	for v in spec::v_all() {
		cases.push((per_version_replay(v, Fill::A), P { hash: v.1 % 2 == 0, class: "allversions", ..Default::default() }));
	}
	let versions = if cx.quick() { spec::v_rep() } else { spec::v_edge() };
	for v in versions {
		let geckos: Vec<Gecko> = if spec::gte(v, (3, 3)) {
			vec![Gecko::None, Gecko::Live { live: 512, nonzero_pad: false }, Gecko::Live { live: 700, nonzero_pad: true }, Gecko::Live { live: 66000, nonzero_pad: false }]
		} else {
			vec![Gecko::None]
		};
		for gk in geckos {
			for ends in [1u8, 2] {
				let intl: crate::ubj::Meta = vec![("プレイヤー".into(), crate::ubj::MVal::Str("ピーチ姫 é ü".into())), ("n".into(), crate::ubj::MVal::Int(-7))];
				for meta in [Some(default_meta()), None, Some(vec![]), Some(intl)] {
					for nf in [0usize, 1, 3] {
						let mut a = base_replay(v, vec![pc(1, false), PortCfg { port: 3, ics: true, ptype: 2 }], nf);
						if nf == 3 {
							a.frames[1].present[1][0] = false;
							if spec::regime(v) == 2 {
								a.frames[2].items = 2;
							}
							if spec::regime(v) > 0 {
								a.frames[2].id = -123;
							}
						}
						a.gecko = gk;
						a.ends = ends;
						a.metadata = meta.clone();
						for hash in [false, true] {
							let comps: &[u8] = if cx.quick() { &[0] } else { &[0, 1, 2] };
							for comp in comps {
								if matches!(gk, Gecko::Live { live: 66000, .. }) && (nf != 1 || *comp != 0) {
									continue;
								}
								cases.push((a.clone(), P { hash, comp: *comp, class: if ends == 2 { "double-end" } else if !matches!(gk, Gecko::None) { "gecko" } else { "plain" }, ..Default::default() }));
							}
						}
					}
				}
			}
		}
	}
	for (i, a) in universe(cx.quick()).into_iter().enumerate() {
		if a.ends == 0 {
			continue; // the property is about finished replays
		}
		let mut p = P { hash: i % 2 == 0, comp: (i % 3) as u8, class: "universe", ..Default::default() };
		if i % 4 == 1 {
			crate::inc::set_sched(&mut p, &crate::env::Sched::Chunk(5));
		}
		cases.push((a, p));
	}
	// every case also under fragmented reads of the skip path
	let mut more = vec![];
	for (a, p) in &cases {
		for sc in [crate::env::Sched::Chunk(1), crate::env::Sched::Chunk(7), crate::env::Sched::Chunk(1000)] {
			if !p.hash && !matches!(sc, crate::env::Sched::Chunk(7)) {
				continue;
			}
			let mut p2 = p.clone();
			crate::inc::set_sched(&mut p2, &sc);
			more.push((a.clone(), p2));
		}
	}
	cases.extend(more);
	par_each(cases.into_iter(), |(abs, p), local| {
		let bytes = Arc::new(record(&abs).doc.assemble());
		eval_case("skip", o_skip, &bytes, &p, || abs.describe(), local);
	});
	// the distance the skip path jumps (or copies through the hasher) around block sizes: filler events of
	// an unknown code make the stretch between Game Start and Game End every length B-8 ..= B+8 for
	// B = 256 .. 131072 (powers of two) and 3 x 4096
	let mut aligned: Vec<(Vec<u8>, String, bool)> = vec![];
	for v in [(0u8, 1u8), (3, 16)] {
		let a = base_replay(v, vec![pc(0, false)], 1);
		let doc = record(&a).doc;
		let ge = doc.events.iter().position(|e| e.code == 0x39).unwrap();
		let base_span: usize = doc.events[1..ge].iter().map(|e| 1 + e.payload.len()).sum();
		for b in [256usize, 512, 1024, 2048, 4096, 8192, 12288, 16384, 32768, 65536, 131072] {
			for d in -8i64..=8 {
				let target = (b as i64 + d) as usize;
				if target < base_span + 2 {
					continue;
				}
				let f = target - base_span;
				let sizes: Vec<(u8, usize)> = if f <= 65536 { vec![(0x7E, f - 1)] } else if f - 65536 >= 2 { vec![(0x7E, 65535), (0x7D, f - 65536 - 1)] } else { continue };
				let mut d2 = doc.clone();
				for (code, size) in sizes.iter().rev() {
					d2.table.push((*code, *size as u16));
					d2.events.insert(ge, Ev { code: *code, payload: (0..*size).map(|i| fill_byte(Fill::B, 0x61, i)).collect(), tag: Tag::Unknown });
				}
				for hash in [true, false] {
					aligned.push((d2.assemble(), format!("v{}.{} with {} bytes between Game Start and Game End", v.0, v.1, target), hash));
				}
			}
		}
	}
	// replays of a newer version whose Game End is longer than any known layout (up to the 65,535 bytes a table
	// entry can declare): where Game End starts is computed from its declared size
	for size in [7usize, 600, 65_534, 65_535] {
		for ver in [(3u8, 17u8), (4, 0)] {
			let a = base_replay((3, 16), vec![pc(0, false), pc(1, true)], 2);
			let mut d = record(&a).doc;
			d.events[0].payload[0] = ver.0;
			d.events[0].payload[1] = ver.1;
			for t in d.table.iter_mut() {
				if t.0 == 0x39 {
					t.1 = size as u16;
				}
			}
			for ev in d.events.iter_mut() {
				if ev.code == 0x39 {
					let n = ev.payload.len();
					ev.payload.extend((n..size).map(|k| (k % 249) as u8 | 1));
				}
			}
			for hash in [true, false] {
				aligned.push((d.assemble(), format!("v{}.{} with a Game End of {} bytes", ver.0, ver.1, size), hash));
			}
		}
	}
	// distances beyond 31 and close to 32 bits: a sparse stream (never held in memory) with 32,767 / 32,768 /
	// 32,769 / 65,000 filler events of 65,536 bytes after Game Start; the seek path in both tiers, the hashed
	// copy path (reads the 2-4 GiB through the hasher) in the thorough tier
	{
		let mut sjobs = vec![];
		for v in [(2u8, 0u8), (3, 16)] {
			let a = base_replay(v, vec![pc(0, false)], 0);
			let mut d = record(&a).doc;
			d.table.push((0x7E, 65_535));
			let bytes = Arc::new(d.assemble());
			for n in [1i64, 32_767, 32_768, 32_769, 65_000] {
				for hash in [false, true] {
					if hash && (cx.quick() || n > 32_769) {
						continue;
					}
					sjobs.push((bytes.clone(), v, n, hash));
				}
			}
		}
		par_each(sjobs.into_iter(), |(bytes, v, n, hash), local| {
			let mut p = P { hash, class: "sparse", ..Default::default() };
			p.n[0] = n;
			eval_case("skip_sparse", o_skip_sparse, &bytes, &p, || format!("v{}.{} with {} filler events of 64 KiB after Game Start", v.0, v.1, n), local);
		});
	}
	cx.note("aligned_span_cases", json!(aligned.len()));
	par_each(aligned.into_iter(), |(bytes, label, hash), local| {
		let bytes = Arc::new(bytes);
		let mut p = P { hash, class: "aligned-span", ..Default::default() };
		if label.contains("Game End of") {
			p.class = "newer-version";
			p.n[0] = 9;
		}
		eval_case("skip", o_skip, &bytes, &p, || label, local);
	});
	finish(cx);
}
