//! C18: .slpp is a tar starting with peppi.json whose entries agree with each other.

use std::sync::Arc;

use serde_json::{json, Value};

use crate::checks::c02::corner_replays;
use crate::checks::c08::finish_out;
use crate::common::*;
use crate::ops::*;
use crate::rec::*;
use crate::spec;
use crate::tarfmt;
use crate::util::*;

pub const ORACLES: &[(&str, Oracle)] = &[("archive", o_archive), ("archive_extra", o_archive_extra), ("archive_odd_names", o_archive_odd_names), ("archive_version", o_archive_version)];

const KNOWN_ENTRIES: [&str; 8] = ["peppi.json", "metadata.json", "start.json", "start.raw", "end.json", "end.raw", "gecko_codes.raw", "frames.arrow"];

/// input = .slp bytes; p.comp, p.hash
pub fn o_archive(input: &[u8], p: &P) -> Out {
	let rg = domain(input, "C18");
	let mut out = out_from(&rg);
	out.nontrivial = true;
	let r = catch(|| -> Result<u64, (String, String)> {
		let e = |k: &str, m: String| (k.to_string(), m);
		let g1 = read_slp(input, false, p.hash).map_err(|f| e("read-failed", f.describe()))?;
		let g2 = read_slp(input, false, p.hash).map_err(|f| e("read-failed", f.describe()))?;
		let a1 = write_slpp(g1, p.comp).map_err(|f| e(&format!("slpp-write-failed:{}", f.key()), f.describe()))?;
		let a2 = write_slpp(g2, p.comp).map_err(|f| e(&format!("slpp-write-failed:{}", f.key()), f.describe()))?;
		if a1 != a2 {
			return Err(e("nondeterministic", format!("writing the same game twice gives different bytes (first difference at {:?})", first_diff(&a1, &a2))));
		}
		if a1.len() < 10 || &a1[..10] != b"peppi.json" {
			return Err(e("signature", format!("the archive does not start with the documented signature: {:02x?}", &a1[..a1.len().min(10)])));
		}
		let entries = tarfmt::entries(&a1).map_err(|m| e("tar", format!("not a well-formed tar archive: {}", m)))?;
		let names: Vec<&str> = entries.iter().map(|x| x.name.as_str()).collect();
		let mut want: Vec<&str> = vec!["peppi.json", "metadata.json", "start.json", "start.raw"];
		if rg.end_block.is_some() {
			want.push("end.json");
			want.push("end.raw");
		}
		if rg.gecko.is_some() {
			want.push("gecko_codes.raw");
		}
		let mut want_with = want.clone();
		want_with.push("frames.arrow");
		let has_frames = !rg.rows.is_empty();
		// with frames: frames.arrow is there and last; without frames the statement leaves its presence open
		if !(names == want_with || (!has_frames && names == want)) {
			return Err(e("entry-order", format!("archive entries {:?}, expected {:?}", names, want_with)));
		}
		let get = |n: &str| entries.iter().find(|x| x.name == n).map(|x| &x.data);
		// what the reader reconstructs
		let gr = read_slpp(&a1, false).map_err(|f| e(&format!("slpp-read-failed:{}", f.key()), f.describe()))?;
		let parse = |n: &str| -> Result<Value, (String, String)> { serde_json::from_slice::<Value>(get(n).unwrap()).map_err(|x| e("invalid-json", format!("{} is not valid JSON: {}", n, x))) };
		let pj = parse("peppi.json")?;
		// the format version the writer stamps: three integers 0..255, not below the minimum the reader supports
		// (which number it is, is the writer's business: a format revision may raise it)
		let ver_ok = pj["version"].as_array().map_or(false, |a| {
			a.len() == 3 && a.iter().all(|x| x.as_u64().map_or(false, |n| n <= 255)) && (a[0].as_u64(), a[1].as_u64(), a[2].as_u64()) >= (Some(2), Some(0), Some(0))
		});
		if !ver_ok {
			return Err(e("peppi-json", format!("peppi.json version {:?} is not a triple of integers 0..255 at or above 2.0.0", pj["version"])));
		}
		if pj.get("slp_hash").and_then(|h| h.as_str()).map(|s| s.to_string()) != gr.hash {
			return Err(e("peppi-json", format!("peppi.json slp_hash {:?} vs reconstructed hash {:?}", pj.get("slp_hash"), gr.hash)));
		}
		let pq = pj.get("quirks").and_then(|q| q.get("double_game_end")).and_then(|b| b.as_bool()).unwrap_or(false);
		if pq != gr.quirks.map_or(false, |q| q.double_game_end) || pq != (rg.n_ends == 2) {
			return Err(e("peppi-json", format!("peppi.json quirks {:?} vs reconstructed {:?} (file has {} Game Ends)", pj.get("quirks"), gr.quirks, rg.n_ends)));
		}
		// renderings are compared after the same text round trip (f32 prints its shortest decimal form)
		let render = |v: Value| -> Value { serde_json::from_slice(&serde_json::to_vec(&v).unwrap()).unwrap() };
		let _ = &render;
		let rt = |bytes: Vec<u8>| -> Value { serde_json::from_slice(&bytes).unwrap() };
		if parse("metadata.json")? != rt(serde_json::to_vec(&gr.metadata).unwrap()) {
			return Err(e("metadata-json", "metadata.json differs from the JSON rendering of the reconstructed metadata".into()));
		}
		if parse("start.json")? != rt(serde_json::to_vec(&gr.start).unwrap()) {
			return Err(e("start-json", "start.json differs from the JSON rendering of the start reconstructed from start.raw".into()));
		}
		if get("start.raw").unwrap() != &gr.start.bytes.0 || get("start.raw").unwrap() != &rg.start_block {
			return Err(e("start-raw", "start.raw is not the raw Game Start block".into()));
		}
		if let Some(eb) = &rg.end_block {
			let ge = gr.end.as_ref().ok_or_else(|| e("end", "reader reconstructs no end".into()))?;
			if parse("end.json")? != rt(serde_json::to_vec(ge).unwrap()) {
				return Err(e("end-json", "end.json differs from the JSON rendering of the end reconstructed from end.raw".into()));
			}
			if get("end.raw").unwrap() != eb {
				return Err(e("end-raw", "end.raw is not the raw Game End block".into()));
			}
		} else if gr.end.is_some() {
			return Err(e("end", "reader reconstructs an end the game does not have".into()));
		}
		if let Some((gb, live)) = &rg.gecko {
			let raw = get("gecko_codes.raw").unwrap();
			if raw.len() < 4 || raw[..4] != live.to_le_bytes() || &raw[4..] != &gb[..] {
				return Err(e("gecko-raw", "gecko_codes.raw is not the live size followed by the blocks".into()));
			}
		}
		Ok(xx(&a1[..a1.len().min(2048)]))
	});
	finish_out(&mut out, "archive", p, r);
	out
}

/// input = an archive with extra (unknown) entries
pub fn o_archive_extra(input: &[u8], p: &P) -> Out {
	let mut out = Out { transitions: 2, nontrivial: true, ..Default::default() };
	let r = catch(|| -> Result<u64, (String, String)> {
		let e = |k: &str, m: String| (k.to_string(), m);
		let entries = tarfmt::entries(input).map_err(|m| machinery(&format!("C18: generated archive is malformed: {}", m))).unwrap();
		let base: Vec<(String, Vec<u8>)> = entries.iter().filter(|x| KNOWN_ENTRIES.contains(&x.name.as_str())).map(|x| (x.name.clone(), x.data.clone())).collect();
		let base_bytes = tarfmt::build(&base);
		let g0 = read_slpp(&base_bytes, p.skip).map_err(|f| e("base-read-failed", format!("the archive without extra entries does not read: {}", f.describe())))?;
		let g = read_slpp(input, p.skip).map_err(|f| e(&format!("read-failed:{}", f.key()), format!("unknown entries make peppi::read fail: {}", f.describe())))?;
		games_equal(&g0, &g, true).map_err(|m| e("game-differs", format!("unknown entries change the game: {}", m)))?;
		if g0.hash != g.hash {
			return Err(e("hash-differs", "unknown entries change the stored hash".into()));
		}
		Ok(entries.len() as u64)
	});
	finish_out(&mut out, "archive_extra", p, r);
	out
}

/// input = an archive as the writer produced it; p.n[0] = position, p.n[1] = kind of an unknown entry with an
/// unusual name (built with the harness's raw tar writer): 0 a path of more than 100 bytes (GNU long-name
/// record) whose first 100 bytes end in a known entry name, 1 a long path that IS a known name after a long
/// directory part cut at byte 100, 2 a name that is not UTF-8, 3 the directory member `./`, 4 a name of
/// exactly 100 bytes
pub fn o_archive_odd_names(input: &[u8], p: &P) -> Out {
	let mut out = Out { transitions: 2, nontrivial: true, ..Default::default() };
	let r = catch(|| -> Result<u64, (String, String)> {
		let e = |k: &str, m: String| (k.to_string(), m);
		let entries = tarfmt::entries(input).map_err(|m| machinery(&format!("C18: written archive is malformed: {}", m))).unwrap();
		let mut list: Vec<(Vec<u8>, Vec<u8>, u8)> = entries.iter().map(|x| (x.name.clone().into_bytes(), x.data.clone(), b'0')).collect();
		let garbage: Vec<u8> = (0..700).map(|i| (i * 7 % 251) as u8).collect();
		let extra: (Vec<u8>, Vec<u8>, u8) = match p.n[1] {
			0 => (format!("{}/start.raw.orig", "a".repeat(90)).into_bytes(), garbage, b'0'),
			1 => (format!("{}/end.raw/{}", "b".repeat(92), "c".repeat(30)).into_bytes(), garbage, b'0'),
			2 => (vec![0xE9, b'.', b'b', b'i', b'n'], garbage, b'0'),
			3 => (b"./".to_vec(), vec![], b'5'),
			_ => ("d".repeat(100).into_bytes(), garbage, b'0'),
		};
		let pos = (p.n[0].max(0) as usize).min(list.len());
		list.insert(pos, extra);
		let with = tarfmt::build_raw(&list);
		let g0 = read_slpp(input, p.skip).map_err(|f| e("base-read-failed", format!("the archive without extra entries does not read: {}", f.describe())))?;
		let g = read_slpp(&with, p.skip).map_err(|f| e(&format!("read-failed:{}", f.key()), format!("an unknown entry with an unusual name makes peppi::read fail: {}", f.describe())))?;
		games_equal(&g0, &g, true).map_err(|m| e("game-differs", format!("an unknown entry with an unusual name changes the game: {}", m)))?;
		Ok(p.n[1] as u64)
	});
	finish_out(&mut out, "archive_odd_names", p, r);
	out
}

/// input = an archive; p.n[0..3] = format version triple to stamp into peppi.json
pub fn o_archive_version(input: &[u8], p: &P) -> Out {
	let mut out = Out { transitions: 1, nontrivial: true, ..Default::default() };
	let v = (p.n[0] as u8, p.n[1] as u8, p.n[2] as u8);
	let r = catch(|| version_case(input, v));
	finish_out(&mut out, "archive_version", p, r);
	out
}

fn stamp(entries: &[tarfmt::Entry], v: (u8, u8, u8)) -> Vec<u8> {
	let list: Vec<(String, Vec<u8>)> = entries.iter().map(|x| if x.name == "peppi.json" { (x.name.clone(), format!("{{\"version\":[{},{},{}]}}", v.0, v.1, v.2).into_bytes()) } else { (x.name.clone(), x.data.clone()) }).collect();
	tarfmt::build(&list)
}

/// the format version the writer stamped into this archive
fn written_version(entries: &[tarfmt::Entry]) -> Result<(u8, u8, u8), (String, String)> {
	let pj = entries.iter().find(|x| x.name == "peppi.json").ok_or_else(|| ("model".to_string(), "no peppi.json".to_string()))?;
	let v: serde_json::Value = serde_json::from_slice(&pj.data).map_err(|e| ("model".to_string(), e.to_string()))?;
	let a = v["version"].as_array().ok_or_else(|| ("model".to_string(), "peppi.json has no version array".to_string()))?;
	let g = |i: usize| a.get(i).and_then(|x| x.as_u64()).unwrap_or(0) as u8;
	Ok((g(0), g(1), g(2)))
}

fn version_case(input: &[u8], v: (u8, u8, u8)) -> Result<u64, (String, String)> {
	let entries = tarfmt::entries(input).map_err(|m| ("model".to_string(), m))?;
	let cur = written_version(&entries)?;
	let bytes = stamp(&entries, v);
	version_verdict(&bytes, v, cur)
}

/// below the minimum (2.0.0): must be refused. From the minimum up to the version the writer itself
/// stamps: must be read. Above that (a format of the future): the statement is silent - refused, or
/// read as the same game.
fn version_verdict(bytes: &[u8], v: (u8, u8, u8), cur: (u8, u8, u8)) -> Result<u64, (String, String)> {
	let too_old = v < (2, 0, 0);
	let future = v > cur;
	match (too_old, read_slpp(bytes, true)) {
		(true, Err(Fail::Err(_))) => Ok(0),
		(false, Ok(_)) => Ok(1),
		(true, Ok(_)) => Err(("accepted-old-format".into(), format!("an archive of format version {}.{}.{} (< 2.0.0) was accepted", v.0, v.1, v.2))),
		(false, Err(Fail::Err(_))) if future => Ok(2),
		(false, Err(Fail::Err(m))) => Err(("rejected-supported-format".into(), format!("an archive of format version {}.{}.{} (between the minimum 2.0.0 and the version {}.{}.{} the writer stamps) was rejected: {}", v.0, v.1, v.2, cur.0, cur.1, cur.2, m))),
		(_, Err(Fail::Panic(pn))) => Err((pn.key(), format!("panic: {}", pn.msg))),
	}
}

pub fn run() {
	let cx = ctx();
	cx.note("rule", json!("archives of the corner list (base, zero frames, no/empty metadata, no end, double end, gecko, nothing) per layout-class representative x {none, LZ4, ZSTD} x hash {off,on}, inspected with the harness's own tar reader: signature at offset 0, entry order, every JSON entry valid and equal to the rendering of what peppi::read reconstructs, raw entries equal to the raw blocks, two writes byte-identical; games whose Game End block is longer than the version prescribes; plus 1,101 metadata sizes growing byte by byte over more than two tar blocks (every entry length modulo 512); unknown entries (names x, zz.json, frames.arrow.bak, empty name-ish, 3 KB) inserted at EVERY position before frames.arrow, singly and in pairs: game unchanged; unknown entries whose names share a suffix, prefix or directory with a known entry and whose content is not what the suffix suggests (JSON Lines, empty and broken *.json, *.raw, *.arrow, Start.json, peppi.json.orig, sub/readme.raw) and unknown entries of 64 KiB+1, 1 MiB+1 and 4 MiB+513 bytes at every position, with and without skip_frames; unknown entries with unusual names (a GNU long-name record whose first 100 bytes end in a known name, a name that is not UTF-8, the directory member ./, a 100-byte name) at every position; peppi.json rewritten (own tar writer, checksum recomputed) with format version triples: quick all (major,minor) at patch 0 and all triples over {0,1,2,3,255}; thorough ALL 2^24: read is Err for every triple < (2,0,0), Ok for every triple from 2.0.0 up to the version the writer stamps, and for later versions (on which the statement is silent) Err or Ok. Every case non-trivial; distinct by construction"));
	cx.note("exhaustive", json!(true));
	cx.note("assumptions", json!(["for a game without frames the statement leaves the presence of frames.arrow open: both accepted"]));
	let versions = if cx.quick() { vec![(0, 1), (1, 3), (2, 0), (2, 2), (3, 0), (3, 3), (3, 7), (3, 13), (3, 16)] } else { spec::v_rep() };
	let mut cases = vec![];
	for v in &versions {
		for (a, class) in corner_replays(*v) {
			for comp in 0..3u8 {
				for hash in [false, true] {
					if cx.quick() && comp != 0 && hash {
						continue;
					}
					cases.push((a.clone(), P { comp, hash, class, ..Default::default() }));
				}
			}
		}
	}
	for (i, a) in crate::gen::universe(cx.quick()).into_iter().enumerate() {
		cases.push((a, P { comp: (i % 3) as u8, hash: i % 2 == 1, class: "universe", ..Default::default() }));
	}
	// entry sizes around the tar block size: metadata whose JSON rendering grows one byte at a time over more
	// than two 512-byte blocks (every residue of the entry length modulo 512, including 0, twice)
	for l in 0..=1100usize {
		let mut a = base_replay((3, 16), vec![pc(0, false), pc(1, false)], 1);
		let mut m: crate::ubj::Meta = vec![];
		let mut left = l;
		let mut k = 0;
		while left > 0 || k == 0 {
			let n = left.min(250);
			m.push((format!("k{}", k), crate::ubj::MVal::Str("x".repeat(n))));
			left -= n;
			k += 1;
		}
		a.metadata = Some(m);
		cases.push((a, P { comp: (l % 3) as u8, hash: false, class: "entry-size", ..Default::default() }));
	}
	par_each(cases.into_iter(), |(abs, p), local| {
		let bytes = Arc::new(record(&abs).doc.assemble());
		eval_case("archive", o_archive, &bytes, &p, || abs.describe(), local);
	});
	// games whose Game End block is longer than its version prescribes (the table says so, the reader goes by the
	// block): the extra fields are in the game, so they are in end.json and in end.raw, and a reader has to
	// reconstruct them from there
	{
		let mut raw_cases: Vec<(Vec<u8>, String, P)> = vec![];
		for (v, size) in [((3u8, 12u8), 6usize), ((2, 0), 6), ((1, 0), 2), ((0, 1), 6)] {
			let a = base_replay(v, vec![pc(0, false), pc(1, false), pc(3, false)], 2);
			let mut d = record(&a).doc;
			for t in d.table.iter_mut() {
				if t.0 == 0x39 {
					t.1 = size as u16;
				}
			}
			for ev in d.events.iter_mut() {
				if ev.code == 0x39 {
					// method, LRAS initiator, placements of ports 1-4
					let full = [2u8, 1, 0, 2, 0xFF, 1];
					let n = ev.payload.len();
					ev.payload.extend_from_slice(&full[n..size]);
				}
			}
			for comp in 0..3u8 {
				raw_cases.push((d.assemble(), format!("v{}.{} with a Game End block of {} bytes", v.0, v.1, size), P { comp, class: "long-game-end", ..Default::default() }));
			}
		}
		par_each(raw_cases.into_iter(), |(bytes, label, p), local| {
			let bytes = Arc::new(bytes);
			eval_case("archive", o_archive, &bytes, &p, || label, local);
		});
	}
	// unknown entries
	let mk_archive = |a: &AbsReplay, comp: u8| -> Vec<u8> {
		let b = record(a).doc.assemble();
		let g = read_slp(&b, false, true).unwrap_or_else(|f| machinery(&format!("C18 base: {}", f.describe())));
		write_slpp(g, comp).unwrap_or_else(|f| machinery(&format!("C18 base: {}", f.describe())))
	};
	let extras: Vec<(String, Vec<u8>)> = vec![
		("x".into(), b"hello".to_vec()),
		("zz.json".into(), b"{\"a\":1}".to_vec()),
		("frames.arrow.bak".into(), vec![0x41; 700]),
		("notes/readme.txt".into(), vec![]),
		("big.bin".into(), (0..3000).map(|i| (i % 251) as u8).collect()),
	];
	// single placements only: names that share a suffix, prefix or case-variant with a known entry but are not one,
	// with content that is not what the suffix suggests; sizes past 64 KiB, 1 MiB and 4 MiB (first two bases)
	let singles: Vec<(String, Vec<u8>)> = vec![
		("notes.json".into(), b"{\"a\":1}\n{\"b\":2}\n".to_vec()),
		("index.json".into(), vec![]),
		("annotations.json".into(), b"// not json\n[1,".to_vec()),
		("extra.raw".into(), vec![0x36; 5]),
		("thumb.arrow".into(), vec![0xFF; 64]),
		("Start.json".into(), b"nope".to_vec()),
		("peppi.json.orig".into(), b"{\"version\":[0,0,1]}".to_vec()),
		("sub/readme.raw".into(), vec![1, 2, 3]),
	];
	let bigs: Vec<(String, Vec<u8>)> = vec![
		("b64k.bin".into(), (0..65537).map(|i| (i % 253) as u8).collect()),
		("b1m.bin".into(), (0..(1usize << 20) + 1).map(|i| (i % 249) as u8).collect()),
		("b4m.json".into(), (0..(4usize << 20) + 513).map(|i| (i % 241) as u8).collect()),
	];
	let mut jobs: Vec<(Vec<u8>, String, bool)> = vec![];
	for (bi, (a, label)) in corner_replays((3, 16)).into_iter().chain(corner_replays((2, 0)).into_iter().take(1)).enumerate() {
		let arch = mk_archive(&a, 0);
		let entries = tarfmt::entries(&arch).unwrap_or_else(|m| machinery(&format!("C18: written archive is malformed: {}", m)));
		let list: Vec<(String, Vec<u8>)> = entries.iter().map(|x| (x.name.clone(), x.data.clone())).collect();
		let fa = list.iter().position(|x| x.0 == "frames.arrow").unwrap_or(list.len());
		for pos in 0..=fa {
			for ex in singles.iter().chain(bigs.iter().filter(|_| bi < 2)) {
				let mut l = list.clone();
				l.insert(pos, ex.clone());
				jobs.push((tarfmt::build(&l), format!("{} + {} ({} bytes) at {}", label, ex.0, ex.1.len(), pos), (pos + bi) % 2 == 1));
			}
			for (ei, ex) in extras.iter().enumerate() {
				let mut l = list.clone();
				l.insert(pos, ex.clone());
				jobs.push((tarfmt::build(&l), format!("{} + {} at {}", label, ex.0, pos), false));
				if cx.quick() && ei > 2 {
					continue;
				}
				for pos2 in pos..=fa {
					let mut l2 = l.clone();
					l2.insert(pos2 + 1, extras[(ei + 1) % extras.len()].clone());
					jobs.push((tarfmt::build(&l2), format!("{} + {} at {} + {} at {}", label, ex.0, pos, extras[(ei + 1) % extras.len()].0, pos2 + 1), pos2 % 2 == 0));
				}
			}
		}
	}
	// unknown entries with unusual names, at every position before frames.arrow
	{
		let mut ojobs = vec![];
		for (a, label) in corner_replays((3, 16)).into_iter().take(3).chain(corner_replays((2, 0)).into_iter().take(1)) {
			let arch = Arc::new(mk_archive(&a, 0));
			let n = tarfmt::entries(&arch).map(|x| x.iter().position(|y| y.name == "frames.arrow").unwrap_or(x.len())).unwrap_or(0);
			for pos in 0..=n {
				for kind in 0..5i64 {
					ojobs.push((arch.clone(), format!("{} + odd-named entry kind {} at {}", label, kind, pos), pos as i64, kind));
				}
			}
		}
		cx.note("odd_name_cases", json!(ojobs.len()));
		par_each(ojobs.into_iter(), |(arch, label, pos, kind), local| {
			let mut p = P { skip: (pos + kind) % 2 == 1, class: "odd-names", ..Default::default() };
			p.n[0] = pos;
			p.n[1] = kind;
			eval_case("archive_odd_names", o_archive_odd_names, &arch, &p, || label, local);
		});
	}
	cx.note("extra_entry_cases", json!(jobs.len()));
	par_each(jobs.into_iter(), |(bytes, label, skip), local| {
		let bytes = Arc::new(bytes);
		let p = P { skip, class: "extra-entries", ..Default::default() };
		eval_case("archive_extra", o_archive_extra, &bytes, &p, || label, local);
	});
	// format version gate
	let mut z = base_replay((3, 16), vec![pc(0, false), pc(1, false)], 0);
	z.metadata = None;
	let arch = Arc::new(mk_archive(&z, 0));
	let entries = Arc::new(tarfmt::entries(&arch).unwrap());
	let cur = written_version(&entries).unwrap_or_else(|(_, m)| machinery(&format!("C18: {}", m)));
	if cur < (2, 0, 0) {
		machinery("C18: the writer stamps a format version below 2.0.0");
	}
	cx.note("written_format_version", json!([cur.0, cur.1, cur.2]));
	let quick = cx.quick();
	let arch2 = arch.clone();
	par_each(0..65536u32, move |mm, local| {
		let (ma, mi) = ((mm >> 8) as u8, mm as u8);
		let small = |x: u8| matches!(x, 0 | 1 | 2 | 3 | 255);
		for pa in 0..=255u8 {
			if quick && !(pa == 0 || (small(ma) && small(mi) && small(pa))) {
				continue;
			}
			let v = (ma, mi, pa);
			let bytes = stamp(&entries, v);
			local.evaluations += 1;
			local.transitions += 1;
			local.bulk += 1;
			local.nontrivial += 1;
			local.outcomes.insert(fnv_mix(11, (v < (2, 0, 0)) as u64));
			local.states.insert(fnv_mix(11, (v < (2, 0, 0)) as u64));
			if let Err((_, first)) = version_verdict(&bytes, v, cur) {
				let mut p = P { class: "format-version", ..Default::default() };
				p.n = [ma as i64, mi as i64, pa as i64, 0, 0, 0];
				local.evaluations -= 1;
				eval_flagged("archive_version", o_archive_version, &arch2, &p, || format!("format version {}.{}.{}", ma, mi, pa), first, local);
			}
		}
	});
	cx.sample(json!({"format_version": [1, 255, 255], "expected": "Err"}));
	cx.sample(json!({"format_version": [2, 0, 0], "expected": "Ok"}));
	finish(cx);
}
