//! C12: incremental parsing equals one-shot parsing for any read fragmentation.

use std::sync::Arc;

use serde_json::json;

use crate::checks::c11::{bases, schedules};
use crate::env::Sched;
use crate::gen::*;
use crate::inc::*;
use crate::rec::*;
use crate::util::*;

pub fn run() {
	let cx = ctx();
	cx.note("rule", json!("event-level exploration as C04 (all histories of the recorder grammar within the deviation bound, all regimes) driving parse_header, parse_start, parse_event*, parse_metadata over an environment-owned reader: after EVERY call bytes_read() == raw bytes consumed == bytes the reader handed out (no read-ahead), frames().len() never decreases, every completed row equals the model; at the end start/end/metadata/gecko/len/frame(i) through the Game trait equal the one-shot game. Histories x {full reads, 1-byte chunks, 7-byte chunks}; 6 replays x an unknown event of each of 6 (code,size) kinds up to 65,535 bytes at every event boundary; 6 base replays x every two-piece split, every chunk size, every single short read at every read call (thorough: every pair). Non-trivial = history with absence/rollback/items, or a non-default schedule"));
	cx.note("exhaustive", json!(true));
	cx.note("assumptions", json!(["a row counts as completed when the reference walker has seen the event that closes it (Frame End >= 3.0; the next frame's first event or Game End before)", "for a stream without Game End the last pre-3.0 frame is never completed incrementally and is not compared"]));
	let aspects = A_ROWS | A_BYTES | A_FINAL;
	let depth = if cx.quick() { Depth::Quick } else { Depth::Thorough };
	let mut cases: Vec<(AbsReplay, usize)> = vec![];
	history_replays(depth, |a, d| cases.push((a, d)));
	cx.note("histories", json!(cases.len()));
	par_each(cases.into_iter(), |(abs, dev), local| {
		let bytes = Arc::new(record(&abs).doc.assemble());
		let class: &'static str = if dev == 0 { "dev0" } else { "dev>0" };
		for (k, s) in [Sched::Full, Sched::Chunk(1), Sched::Chunk(7)].into_iter().enumerate() {
			// the 7-byte schedule also passes Opts { skip_frames } to the incremental calls (event by event the
			// option only changes the initial column capacity; everything parsed must be the same)
			let mut p = P { class, skip: k == 2, ..Default::default() };
			set_sched(&mut p, &s);
			p.n[0] = aspects;
			eval_case("incremental", o_incremental, &bytes, &p, || format!("{} sched={:?} skip_opt={}", abs.describe(), s, k == 2), local);
		}
	});
	{
		let uni = universe(cx.quick());
		par_each(uni.into_iter().enumerate(), |(i, abs), local| {
			let bytes = Arc::new(record(&abs).doc.assemble());
			let s = [Sched::Full, Sched::Chunk(1), Sched::Chunk(4)][i % 3].clone();
			let mut p = P { class: "universe", skip: i % 2 == 1, ..Default::default() };
			set_sched(&mut p, &s);
			p.n[0] = aspects;
			eval_case("incremental", o_incremental, &bytes, &p, || format!("{} sched={:?}", abs.describe(), s), local);
		});
	}
	// end / metadata variants at deviation 0 across all class representatives
	let mut vcases = vec![];
	for v in crate::spec::v_rep() {
		for ends in 0..=2u8 {
			for meta in [true, false] {
				let mut a = per_version_replay(v, Fill::B);
				a.ends = ends;
				if !meta {
					a.metadata = None;
				}
				if crate::spec::gte(v, (3, 3)) {
					a.gecko = Gecko::Live { live: 700, nonzero_pad: true };
				}
				vcases.push(a);
			}
		}
	}
	par_each(vcases.into_iter(), |abs, local| {
		let bytes = Arc::new(record(&abs).doc.assemble());
		for s in [Sched::Full, Sched::Chunk(2)] {
			let mut p = P { class: "ends-meta", ..Default::default() };
			set_sched(&mut p, &s);
			p.n[0] = aspects;
			eval_case("incremental", o_incremental, &bytes, &p, || format!("{} sched={:?}", abs.describe(), s), local);
		}
	});
	// events with codes the parser does not know (sizes 1 .. 65,535, the largest the table can declare), at
	// every event boundary: the byte accounting and the rows must not be disturbed by them
	{
		let mut ujobs = vec![];
		for a in crate::checks::c08::bases(true) {
			let doc = Arc::new(record(&a).doc);
			for at in 1..=doc.events.len() {
				for k in 0..crate::checks::c08::UNKNOWN.len() {
					ujobs.push((doc.clone(), a.describe(), k, at));
				}
			}
		}
		cx.note("unknown_event_cases", json!(ujobs.len()));
		par_each(ujobs.into_iter(), |(doc, label, k, at), local| {
			let bytes = Arc::new(crate::checks::c08::with_unknown(&doc, &[(k, at)]));
			let s = [Sched::Full, Sched::Chunk(7), Sched::Chunk(4096)][(k + at) % 3].clone();
			let mut p = P { class: "unknown-event", ..Default::default() };
			set_sched(&mut p, &s);
			p.n[0] = aspects;
			eval_case("incremental", o_incremental, &bytes, &p, || format!("{} + unknown event kind {} at boundary {} sched={:?}", label, k, at, s), local);
		});
	}
	// unknown events cut into Message Splitter blocks: the byte accounting goes by the blocks read, not by the
	// size of the message they add up to
	{
		let wjobs = crate::checks::c08::wrapped_unknown_docs();
		par_each(wjobs.into_iter().enumerate(), |(i, (bytes, label)), local| {
			let bytes = Arc::new(bytes);
			let s = [Sched::Full, Sched::Chunk(7), Sched::Chunk(600)][i % 3].clone();
			let mut p = P { class: "split-unknown-event", ..Default::default() };
			set_sched(&mut p, &s);
			p.n[0] = aspects;
			eval_case("incremental", o_incremental, &bytes, &p, || format!("{} sched={:?}", label, s), local);
		});
	}
	// a complete stream whose header declares raw length 0: the one-shot reader walks to Game End like the
	// event-by-event API and then reads the metadata (oracle of C16, which compares with the bytes)
	{
		let zjobs: Vec<_> = bases().into_iter().filter(|(a, _)| a.ends == 1).collect();
		par_each(zjobs.into_iter(), |(a, _), local| {
			let bytes = Arc::new(record(&a).doc.assemble());
			let p = P { class: "raw-length-0", ..Default::default() };
			eval_case("metadata", crate::checks::c16::o_metadata, &bytes, &p, || format!("{} (also with a declared raw length of 0)", a.describe()), local);
		});
	}
	let mut jobs = vec![];
	for (a, _) in bases() {
		let bytes = Arc::new(record(&a).doc.assemble());
		for s in schedules(&bytes, false, false, !cx.quick()) {
			let mut p = P { class: "schedule", ..Default::default() };
			set_sched(&mut p, &s);
			p.n[0] = aspects;
			jobs.push((bytes.clone(), a.describe(), p));
		}
	}
	// the one-shot reader under the same schedules, hash requested: its result must not depend on the
	// fragmentation either (the oracle of C11, here as part of "the game the one-shot reader returns")
	{
		let mut hjobs = vec![];
		for (a, _) in bases() {
			let bytes = Arc::new(record(&a).doc.assemble());
			for s in schedules(&bytes, false, true, false) {
				let mut p = P { hash: true, class: "oneshot-schedule", ..Default::default() };
				set_sched(&mut p, &s);
				hjobs.push((bytes.clone(), a.describe(), p));
			}
		}
		par_each(hjobs.into_iter(), |(bytes, label, p), local| {
			eval_case("hash", crate::checks::c11::o_hash, &bytes, &p, || format!("{} one-shot sched={:?}", label, sched_of(&p)), local);
		});
	}
	cx.note("schedule_cases", json!(jobs.len()));
	par_each(jobs.into_iter(), |(bytes, label, p), local| {
		eval_case("incremental", o_incremental, &bytes, &p, || format!("{} sched={:?}", label, sched_of(&p)), local);
	});
	finish(cx);
}
