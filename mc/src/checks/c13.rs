//! C13: the per-frame row view equals the columnar data at the same index.

use std::sync::Arc;

use serde_json::json;

use crate::gen::*;
use crate::inc::*;
use crate::rec::*;
use crate::spec;
use crate::util::*;

pub fn run() {
	let cx = ctx();
	cx.note("rule", json!("every game of the C04 history exploration (fill patterns make all fields of an event distinct, so joystick != cstick, x != y), every row index, every leaf: Frame::transpose_one and Game::frame on the finished game as read from .slp AND as loaded back from a .slpp archive (rows equal to its own columns and to the .slp rows; quick: all 784 versions and the cross-product replays, thorough: every history with at most one deviation, the BFS prefixes and the long games), and on the in-progress ParseState for every completed row after every event; plus all 784 versions with a 2-frame two-port game; plus the fixture replays; non-trivial = has an absence, rollback or item"));
	cx.note("exhaustive", json!(true));
	cx.note("assumptions", json!(["a row is 'completed' in the in-progress view when the reference walker has seen the event that closes it"]));
	// the trip through .slpp is made for every history with <= 1 deviation in the thorough tier; in the quick tier for all versions
	// (below) and for the cross product of the optional dimensions
	super::c04::run_histories(if cx.quick() { A_TRANSPOSE } else { A_TRANSPOSE | A_VIA_SLPP }, A_TRANSPOSE, true);
	if cx.quick() {
		par_each(crate::gen::universe(true).into_iter(), |abs, local| {
			let bytes = Arc::new(record(&abs).doc.assemble());
			let mut p = P { class: "universe-via-slpp", ..Default::default() };
			p.n[0] = A_TRANSPOSE | A_VIA_SLPP;
			eval_case("model", o_model, &bytes, &p, || abs.describe(), local);
		});
	}
	// all versions
	let mut cases = vec![];
	for v in spec::v_all() {
		for fill in [Fill::A, Fill::B] {
			cases.push(per_version_replay(v, fill));
		}
	}
	par_each(cases.into_iter(), |abs, local| {
		let bytes = Arc::new(record(&abs).doc.assemble());
		let mut p = P { class: "allversions", ..Default::default() };
		p.n[0] = A_TRANSPOSE | A_VIA_SLPP;
		p.n[4] = -1;
		eval_case("model", o_model, &bytes, &p, || abs.describe(), local);
		p.n[0] = A_TRANSPOSE;
		eval_case("incremental", o_incremental, &bytes, &p, || abs.describe(), local);
	});
	finish(cx);
}
