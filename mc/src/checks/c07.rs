//! C07: a replay file cut short at any byte never yields a partial game, panic or hang.

use std::cell::RefCell;
use std::sync::Arc;

use serde_json::json;

use crate::common::*;
use crate::gen::*;
use crate::ops::*;
use crate::rec::*;
use crate::spec;
use crate::util::*;

pub const ORACLES: &[(&str, Oracle)] = &[("trunc_slp", o_trunc_slp), ("trunc_slpp", o_trunc_slpp)];

/// input = the complete well-formed file; p.n[0] = cut offset (a proper prefix is read)
pub fn o_trunc_slp(input: &[u8], p: &P) -> Out {
	let cut = p.n[0] as usize;
	let mut out = Out { transitions: 1, nontrivial: true, ..Default::default() };
	// through the environment-owned reader: a loop that keeps reading at EOF trips its progress bound
	let mut rd = crate::env::EnvReader::new(&input[..cut], crate::env::Sched::Full);
	let res = read_slp_from(&mut rd, p.skip, p.hash);
	if rd.overrun {
		out.obs = 4;
		out.viol = viol("trunc_slp", p, "no-progress", format!("reading the first {} of {} bytes: the reader kept calling read() at end of input without making progress", cut, input.len()));
		out.states.push(out.obs);
		return out;
	}
	match res {
		Err(Fail::Err(e)) => out.obs = fnv_mix(2, xx(sanitize(&e).as_bytes())),
		Err(Fail::Panic(pn)) => {
			out.obs = 3;
			out.viol = viol("trunc_slp", p, &pn.key(), format!("panic reading the first {} of {} bytes: {}", cut, input.len(), pn.msg));
		}
		Ok(g) => {
			out.obs = 1;
			out.viol = viol("trunc_slp", p, "partial-ok", format!("reading only the first {} of {} bytes returned Ok (a game with {} frames, end={}, metadata={})", cut, input.len(), g.frames.len(), g.end.is_some(), g.metadata.is_some()));
		}
	}
	out.states.push(out.obs);
	out
}

thread_local! {
	static REF_CACHE: RefCell<Option<(u64, Vec<u8>, Option<String>, bool)>> = RefCell::new(None);
}

/// input = the complete archive the writer produced; p.n[0] = cut offset
pub fn o_trunc_slpp(input: &[u8], p: &P) -> Out {
	let cut = p.n[0] as usize;
	let mut out = Out { transitions: 1, nontrivial: true, ..Default::default() };
	match read_slpp(&input[..cut], p.skip) {
		Err(Fail::Err(e)) => out.obs = fnv_mix(2, xx(sanitize(&e).as_bytes())),
		Err(Fail::Panic(pn)) => {
			out.obs = 3;
			out.viol = viol("trunc_slpp", p, &pn.key(), format!("panic reading the first {} of {} archive bytes: {}", cut, input.len(), pn.msg));
		}
		Ok(g) => {
			out.obs = 1;
			// acceptable only if it is exactly the full game (only padding / footer was lost)
			let key = xx(input) ^ p.skip as u64;
			let (ref_bytes, ref_hash, ref_q) = REF_CACHE.with(|c| {
				let mut c = c.borrow_mut();
				if c.as_ref().map_or(true, |x| x.0 != key) {
					let full = read_slpp(input, p.skip).unwrap_or_else(|f| machinery(&format!("C07: the untruncated archive does not read: {}", f.describe())));
					let w = write_slp(&full).unwrap_or_else(|f| machinery(&format!("C07: reference write failed: {}", f.describe())));
					*c = Some((key, w, full.hash.clone(), full.quirks.map_or(false, |q| q.double_game_end)));
				}
				let x = c.as_ref().unwrap();
				(x.1.clone(), x.2.clone(), x.3)
			});
			match write_slp(&g) {
				Ok(w) if w == ref_bytes && g.hash == ref_hash && g.quirks.map_or(false, |q| q.double_game_end) == ref_q => {}
				Ok(w) => {
					out.viol = viol(
						"trunc_slpp",
						p,
						"partial-ok",
						format!("reading only the first {} of {} archive bytes returned Ok with a different game ({} frames; serialises to {} bytes instead of {})", cut, input.len(), g.frames.len(), w.len(), ref_bytes.len()),
					)
				}
				Err(f) => out.viol = viol("trunc_slpp", p, "partial-ok-unwritable", format!("truncated archive read Ok but the game cannot be written: {}", f.describe())),
			}
		}
	}
	out.states.push(out.obs);
	out
}

fn games(quick: bool) -> Vec<AbsReplay> {
	let mut out = vec![];
	let versions = if quick { vec![(0, 1), (1, 0), (2, 0), (2, 2), (3, 0), (3, 16)] } else { spec::v_edge() };
	for v in versions {
		for ports in [vec![pc(0, false), pc(1, false)], vec![pc(0, true), pc(2, false)]] {
			for hist in 0..2 {
				for gecko in [false, true] {
					if gecko && !spec::gte(v, (3, 3)) {
						continue;
					}
					for ends in [1u8, 2] {
						for meta in [true, false] {
							if quick && (hist + gecko as usize + (ends == 2) as usize + (!meta) as usize) > 1 {
								continue;
							}
							let mut a = base_replay(v, ports.clone(), 2);
							if hist == 1 {
								a.frames.push(AbsFrame { id: if spec::regime(v) > 0 { -122 } else { -121 }, present: vec![[true, true]; ports.len()], items: 0 });
								a.frames[1].present[0][0] = false;
								if spec::regime(v) == 2 {
									a.frames[0].items = 1;
									a.frames[2].items = 2;
								}
							}
							if gecko {
								a.gecko = Gecko::Live { live: 600, nonzero_pad: true };
							}
							a.ends = ends;
							if !meta {
								a.metadata = None;
							}
							out.push(a);
						}
					}
				}
			}
		}
	}
	out
}

pub fn run() {
	let cx = ctx();
	cx.note("rule", json!(".slp: EVERY proper prefix (every byte offset 0..len-1) of finished well-formed replays (versions x 2 port configs x {default history, absence+rollback+items} x gecko x {1,2} ends x {metadata, none}) x skip_frames x compute_hash, plus cuts around every event boundary of the fixture replays: must be Err. .slpp: every proper prefix of the archives peppi::write produces for a subset of those games x {none, LZ4, ZSTD} (quick: one game, 3 compressions, every offset near a 512-byte tar block boundary and every 7th elsewhere): Err, or Ok with exactly the full game; no panic; no sleep (virtual clock) and no hang (watchdog). Every case is non-trivial (a crash point); distinct = (file, cut, options)"));
	cx.note("exhaustive", json!(!cx.quick()));
	cx.note("assumptions", json!(["truncation is modelled as a reader whose data is a prefix (EOF where the file was cut)", "a case that sleeps 4 times or produces no result in 60 s ends the run with a livelock/hang verdict"]));
	// .slp
	let gs = games(cx.quick());
	cx.note("slp_files", json!(gs.len()));
	let mut slp_jobs: Vec<(Arc<Vec<u8>>, String)> = vec![];
	for a in &gs {
		slp_jobs.push((Arc::new(record(a).doc.assemble()), a.describe()));
	}
	let it = slp_jobs.into_iter().flat_map(|(b, label)| {
		let n = b.len();
		(0..n).map(move |cut| (b.clone(), label.clone(), cut))
	});
	let quick = cx.quick();
	par_each(it, move |(bytes, label, cut), local| {
		for (skip, hash) in [(false, false), (true, true), (true, false), (false, true)] {
			// quick: the mixed option pairs only at every third cut
			if quick && skip != hash && cut % 3 != 0 {
				continue;
			}
			let mut p = P { skip, hash, class: "slp", ..Default::default() };
			p.n[0] = cut as i64;
			eval_case("trunc_slp", o_trunc_slp, &bytes, &p, || format!("{} cut at {}", label, cut), local);
		}
	});
	// fixtures: cuts around every event boundary and in the tail
	let fx: Vec<_> = fixtures().into_iter().filter(|f| f.rg.is_some()).collect();
	let mut fjobs = vec![];
	for f in fx {
		let rg = f.rg.as_ref().unwrap();
		let b = Arc::new(f.bytes.clone());
		let mut cuts: Vec<usize> = vec![];
		let step = if cx.quick() { 97 } else { 7 };
		for (i, bd) in rg.boundaries.iter().enumerate() {
			if i % step == 0 || i + 40 > rg.boundaries.len() || i < 40 {
				for d in 0..3usize {
					cuts.push(bd.saturating_sub(d));
					cuts.push(bd + d);
				}
			}
		}
		for c in b.len().saturating_sub(64)..b.len() {
			cuts.push(c);
		}
		cuts.sort();
		cuts.dedup();
		cuts.retain(|c| *c < b.len());
		for c in cuts {
			fjobs.push((b.clone(), f.path.clone(), c));
		}
	}
	cx.note("fixture_cuts", json!(fjobs.len()));
	par_each(fjobs.into_iter(), |(bytes, label, cut), local| {
		for (skip, hash) in [(false, false), (true, true)] {
			let mut p = P { skip, hash, class: "fixture", ..Default::default() };
			p.n[0] = cut as i64;
			eval_case("trunc_slp", o_trunc_slp, &bytes, &p, || format!("{} cut at {}", label, cut), local);
		}
	});
	// .slpp
	let mut archives: Vec<(Arc<Vec<u8>>, String)> = vec![];
	let slpp_games: Vec<AbsReplay> = if cx.quick() {
		// with Gecko codes and a doubled Game End, so that every kind of archive entry is there to be cut
		let mut g = per_version_replay((3, 16), Fill::A);
		g.gecko = Gecko::Live { live: 600, nonzero_pad: true };
		g.ends = 2;
		vec![g]
	} else {
		let mut v = vec![per_version_replay((0, 1), Fill::A), per_version_replay((2, 2), Fill::A), per_version_replay((3, 0), Fill::A), per_version_replay((3, 16), Fill::A)];
		let mut z = per_version_replay((3, 16), Fill::A);
		z.frames.clear();
		z.metadata = None;
		v.push(z);
		let mut g = per_version_replay((3, 7), Fill::A);
		g.gecko = Gecko::Live { live: 600, nonzero_pad: true };
		g.ends = 2;
		v.push(g);
		v
	};
	for a in &slpp_games {
		let bytes = record(a).doc.assemble();
		for comp in [0u8, 1, 2] {
			let g = read_slp(&bytes, false, true).unwrap_or_else(|f| machinery(&format!("C07 base does not read: {}", f.describe())));
			let arch = write_slpp(g, comp).unwrap_or_else(|f| machinery(&format!("C07 base does not convert: {}", f.describe())));
			archives.push((Arc::new(arch), format!("{} comp={}", a.describe(), comp)));
		}
	}
	cx.note("slpp_archives", json!(archives.iter().map(|(a, l)| json!({"bytes": a.len(), "game": l})).collect::<Vec<_>>()));
	let quick = cx.quick();
	let it = archives.into_iter().flat_map(move |(b, label)| {
		let n = b.len();
		(0..n).filter(move |c| !quick || c % 7 == 0 || c % 512 < 24 || c % 512 > 488).map(move |cut| (b.clone(), label.clone(), cut))
	});
	// a long game: its frames.arrow stays above a megabyte even compressed, so anything that treats large
	// members differently (streaming instead of buffering, size caps) is reached; cuts every 64 bytes through the
	// last 128 KiB of the archive (the end of the record batch and the Arrow footer), every 4,096 before
	let mut long_cuts: Vec<(Arc<Vec<u8>>, String, usize)> = vec![];
	{
		let mut a = base_replay((3, 16), vec![pc(1, false)], 10_000);
		a.metadata = None;
		// frame payloads of deterministic noise (every bit pattern is legal in frame data), so that compression
		// cannot shrink the member below the sizes at which implementations start to treat it differently
		let mut doc = record(&a).doc;
		let mut x: u64 = 0x9E37_79B9_7F4A_7C15;
		for ev in doc.events.iter_mut() {
			let from = match ev.code {
				0x37 | 0x38 => 6,
				0x3A | 0x3C => 4,
				_ => continue,
			};
			for b in ev.payload[from..].iter_mut() {
				x ^= x << 13;
				x ^= x >> 7;
				x ^= x << 17;
				*b = (x >> 32) as u8;
			}
		}
		let bytes = doc.assemble();
		let mut sizes = vec![];
		for comp in [1u8, 2] {
			let g = read_slp(&bytes, false, false).unwrap_or_else(|f| machinery(&format!("C07 long base does not read: {}", f.describe())));
			let arch = Arc::new(write_slpp(g, comp).unwrap_or_else(|f| machinery(&format!("C07 long base does not convert: {}", f.describe()))));
			sizes.push(arch.len());
			let n = arch.len();
			let tail = n.saturating_sub(128 << 10);
			let mut cut = 0usize;
			while cut < n {
				long_cuts.push((arch.clone(), format!("10,000-frame game comp={}", comp), cut));
				cut += if cut >= tail { 64 } else { 4096 };
			}
		}
		cx.note("long_archive_bytes", json!(sizes));
	}
	par_each(long_cuts.into_iter(), |(bytes, label, cut), local| {
		for skip in [false, true] {
			let mut p = P { skip, class: "slpp-long", ..Default::default() };
			p.n[0] = cut as i64;
			eval_case("trunc_slpp", o_trunc_slpp, &bytes, &p, || format!("{} cut at {}", label, cut), local);
		}
	});
	par_each(it, |(bytes, label, cut), local| {
		for skip in [false, true] {
			let mut p = P { skip, class: "slpp", ..Default::default() };
			p.n[0] = cut as i64;
			eval_case("trunc_slpp", o_trunc_slpp, &bytes, &p, || format!("{} cut at {}", label, cut), local);
		}
	});
	finish(cx);
}
