//! C14: the Arrow struct array has the per-version schema and converts back losslessly.

use std::sync::{Arc, OnceLock};

use arrow2::array::{Array, StructArray};
use arrow2::datatypes::DataType;
use serde_json::json;

use peppi::frame::immutable as im;
use peppi::game::immutable::Game;
use peppi::game::{port_occupancy, GeckoCodes};

use crate::common::*;
use crate::gen::*;
use crate::model::{ColLike, FrameLike, RefGame};
use crate::ops::*;
use crate::rec::*;
use crate::spec::{self, Kind, Ty};
use crate::ubj::{parse_json, J};
use crate::util::*;
use crate::view;

pub const ORACLES: &[(&str, Oracle)] = &[("arrow", o_arrow)];

/// Schema shape: names, nesting, order, primitive types (nullability is not part of the property)
#[derive(Clone, Debug, PartialEq)]
pub enum Sh {
	Prim(Ty),
	Struct(Vec<(String, Sh)>),
	List(String, Box<Sh>),
}

fn sh_of(dt: &DataType) -> Result<Sh, String> {
	Ok(match dt {
		DataType::UInt8 => Sh::Prim(Ty::U8),
		DataType::Int8 => Sh::Prim(Ty::I8),
		DataType::UInt16 => Sh::Prim(Ty::U16),
		DataType::UInt32 => Sh::Prim(Ty::U32),
		DataType::Int32 => Sh::Prim(Ty::I32),
		DataType::Float32 => Sh::Prim(Ty::F32),
		DataType::Struct(fs) => Sh::Struct(fs.iter().map(|f| Ok((f.name.clone(), sh_of(&f.data_type)?))).collect::<Result<Vec<_>, String>>()?),
		DataType::List(f) => Sh::List(f.name.clone(), Box::new(sh_of(&f.data_type)?)),
		other => return Err(format!("unexpected Arrow type {:?}", other)),
	})
}

/// per-kind struct from the independent spec tables
fn spec_struct(kind: Kind, v: (u8, u8)) -> Sh {
	let mut fields: Vec<(String, Sh)> = vec![];
	for row in spec::layout(kind) {
		if !spec::gte(v, row.since) {
			continue;
		}
		match row.path.split_once('.') {
			None => fields.push((row.path.to_string(), Sh::Prim(row.ty))),
			Some((a, b)) => {
				if let Some((n, Sh::Struct(sub))) = fields.last_mut() {
					if n == a {
						sub.push((b.to_string(), Sh::Prim(row.ty)));
						continue;
					}
				}
				fields.push((a.to_string(), Sh::Struct(vec![(b.to_string(), Sh::Prim(row.ty))])));
			}
		}
	}
	Sh::Struct(fields)
}

// ---- the same from gen/resources/frames.json (the normative naming table named by the property)

static FRAMES_JSON: OnceLock<J> = OnceLock::new();

fn frames_json() -> &'static J {
	FRAMES_JSON.get_or_init(|| {
		let txt = std::fs::read(format!("{}/gen/resources/frames.json", repo_home())).unwrap_or_else(|e| machinery(&format!("cannot read frames.json: {}", e)));
		parse_json(&txt).unwrap_or_else(|e| machinery(&format!("frames.json does not parse: {}", e)))
	})
}

fn jget<'a>(j: &'a J, k: &str) -> Option<&'a J> {
	match j {
		J::Obj(v) => v.iter().find(|(n, _)| n == k).map(|(_, x)| x),
		_ => None,
	}
}

fn parse_ver(s: &str) -> (u8, u8) {
	let (a, b) = s.split_once('.').unwrap();
	(a.parse().unwrap(), b.parse().unwrap())
}

fn json_struct(name: &str, v: (u8, u8)) -> Sh {
	let root = frames_json();
	let st = jget(root, name).unwrap_or_else(|| machinery(&format!("frames.json has no struct {}", name)));
	let fields = match jget(st, "fields") {
		Some(J::Arr(a)) => a,
		_ => machinery("frames.json: no fields"),
	};
	let mut out = vec![];
	for (i, f) in fields.iter().enumerate() {
		let since = match jget(f, "version") {
			Some(J::Str(s)) => parse_ver(s),
			_ => (0, 0),
		};
		if !spec::gte(v, since) {
			continue;
		}
		let fname = match jget(f, "name") {
			Some(J::Str(s)) => s.clone(),
			_ => i.to_string(),
		};
		let ty = match jget(f, "type") {
			Some(J::Str(s)) => s.clone(),
			_ => machinery("frames.json: field without type"),
		};
		let sh = match ty.as_str() {
			"u8" => Sh::Prim(Ty::U8),
			"i8" => Sh::Prim(Ty::I8),
			"u16" => Sh::Prim(Ty::U16),
			"u32" => Sh::Prim(Ty::U32),
			"i32" => Sh::Prim(Ty::I32),
			"f32" => Sh::Prim(Ty::F32),
			other => json_struct(other, v),
		};
		out.push((fname, sh));
	}
	Sh::Struct(out)
}

fn kind_json_name(k: Kind) -> &'static str {
	match k {
		Kind::Pre => "Pre",
		Kind::Post => "Post",
		Kind::Start => "Start",
		Kind::End => "End",
		Kind::Item => "Item",
	}
}

fn expected_frame(v: (u8, u8), ports: &[PortCfg], per_kind: &dyn Fn(Kind) -> Sh, with_empty_end: bool) -> Sh {
	let data = Sh::Struct(vec![("pre".into(), per_kind(Kind::Pre)), ("post".into(), per_kind(Kind::Post))]);
	let mut pf = vec![];
	for p in ports {
		let mut f = vec![("leader".to_string(), data.clone())];
		if p.ics {
			f.push(("follower".to_string(), data.clone()));
		}
		pf.push((format!("P{}", p.port + 1), Sh::Struct(f)));
	}
	let mut fields = vec![("id".to_string(), Sh::Prim(Ty::I32))];
	// same for a game without players: a `ports` struct without fields cannot exist in Arrow, the
	// entry is either left out or (if the library allowed it) empty
	if !pf.is_empty() || with_empty_end {
		fields.push(("ports".to_string(), Sh::Struct(pf)));
	}
	if spec::gte(v, (2, 2)) {
		fields.push(("start".into(), per_kind(Kind::Start)));
	}
	if spec::gte(v, (3, 0)) {
		let e = per_kind(Kind::End);
		// Arrow cannot represent a struct without fields: before 3.7 (Frame End carries no field)
		// the `end` entry is either left out or (if the Arrow library allowed it) empty
		if e != Sh::Struct(vec![]) || with_empty_end {
			fields.push(("end".into(), e));
		}
		fields.push(("item".into(), Sh::List("item".into(), Box::new(per_kind(Kind::Item)))));
	}
	Sh::Struct(fields)
}

fn clone_gecko(g: &Option<GeckoCodes>) -> Option<GeckoCodes> {
	g.as_ref().map(|g| GeckoCodes { bytes: g.bytes.clone(), actual_size: g.actual_size })
}

pub fn o_arrow(input: &[u8], p: &P) -> Out {
	let rg = domain(input, "arrow");
	let mut out = out_from(&rg);
	let r = catch(|| arrow_inner(input, &rg));
	match r {
		Ok(Ok(obs)) => out.obs = obs,
		Ok(Err((k, m))) => {
			out.obs = 5;
			out.viol = viol("arrow", p, &k, m);
		}
		Err(pn) => {
			out.obs = 6;
			out.viol = viol("arrow", p, &pn.key(), format!("panic in the Arrow export/import path: {}", pn.msg));
		}
	}
	out
}

fn arrow_inner(input: &[u8], rg: &RefGame) -> Result<u64, (String, String)> {
	let e = |k: &str, m: String| (k.to_string(), m);
	let g1 = read_slp(input, false, false).map_err(|f| e("read-failed", f.describe()))?;
	let g2 = read_slp(input, false, false).map_err(|f| e("read-failed", f.describe()))?;
	let v = rg.v2();
	let version = g2.start.slippi.version;
	let occ = port_occupancy(&g2.start);
	let rows = g1.frames.len();
	let sa: StructArray = g2.frames.into_struct_array(version, &occ);
	// schema
	let actual = sh_of(sa.data_type()).map_err(|m| e("schema-type", m))?;
	let exp_spec = expected_frame(v, &rg.ports, &|k| spec_struct(k, v), false);
	let exp_spec2 = expected_frame(v, &rg.ports, &|k| spec_struct(k, v), true);
	if actual != exp_spec && actual != exp_spec2 {
		return Err(e("schema", format!("Arrow schema differs from the per-version field table (SPEC transcription):\n  actual   {:?}\n  expected {:?}", actual, exp_spec)));
	}
	let exp_json = expected_frame(v, &rg.ports, &|k| json_struct(kind_json_name(k), v), false);
	let exp_json2 = expected_frame(v, &rg.ports, &|k| json_struct(kind_json_name(k), v), true);
	if actual != exp_json && actual != exp_json2 {
		return Err(e("schema-json", format!("Arrow schema differs from gen/resources/frames.json:\n  actual   {:?}\n  expected {:?}", actual, exp_json)));
	}
	if sa.len() != rows {
		return Err(e("rows", format!("struct array has {} rows for {} frames", sa.len(), rows)));
	}
	if sa.validity().is_some() {
		return Err(e("validity", "top-level struct array has a validity bitmap".into()));
	}
	// leaves by name
	let id = view::arrow_leaf(&sa, "id").map_err(|m| e("name", m))?;
	for i in 0..rows {
		if id.bits(i) != g1.frames.id.values()[i] as u32 {
			return Err(e("value", format!("id row {} differs", i)));
		}
	}
	let no_nulls = |a: &dyn Array, what: &str| -> Result<(), (String, String)> {
		if a.null_count() != 0 {
			return Err(("validity".to_string(), format!("{} has {} null rows; only leader/follower structs (absent characters) may be null", what, a.null_count())));
		}
		Ok(())
	};
	no_nulls(view::arrow_child(&sa, "id").unwrap(), "id")?;
	let ports_sa = match view::arrow_child(&sa, "ports").and_then(view::arrow_struct) {
		Some(x) => Some(x),
		None if rg.ports.is_empty() => None,
		None => return Err(e("name", "no struct 'ports'".into())),
	};
	if let Some(x) = ports_sa {
		no_nulls(x, "ports")?;
	}
	for (pi, pc) in rg.ports.iter().enumerate() {
		let ports_sa = ports_sa.unwrap();
		let pname = format!("P{}", pc.port + 1);
		let psa = view::arrow_child(ports_sa, &pname).and_then(view::arrow_struct).ok_or_else(|| e("name", format!("no struct ports.{}", pname)))?;
		no_nulls(psa, &format!("ports.{}", pname))?;
		for fo in [false, true] {
			if fo && !pc.ics {
				continue;
			}
			let cname = if fo { "follower" } else { "leader" };
			let csa = view::arrow_child(psa, cname).and_then(view::arrow_struct).ok_or_else(|| e("name", format!("no struct ports.{}.{}", pname, cname)))?;
			for i in 0..rows {
				let present = rg.rows[i].chars[pi][fo as usize].is_some();
				let valid = csa.validity().map_or(true, |b| b.get_bit(i));
				if valid != present {
					return Err(e("validity", format!("ports.{}.{} row {}: validity bit {} but the character is {}", pname, cname, i, valid, if present { "present" } else { "absent" })));
				}
			}
			for (kind, n) in [(Kind::Pre, view::PRE.len()), (Kind::Post, view::POST.len())] {
				let ksa = view::arrow_child(csa, kind.name()).and_then(view::arrow_struct).ok_or_else(|| e("name", format!("no struct {}.{}.{}", pname, cname, kind.name())))?;
				for i in 0..rows {
					if !ksa.validity().map_or(true, |b| b.get_bit(i)) && rg.rows[i].chars[pi][fo as usize].is_some() {
						return Err(e("validity", format!("{}.{}.{} row {} is null although the character is present", pname, cname, kind.name(), i)));
					}
				}
				// struct-level validity: every struct under a character that has a validity slot in memory is
				// exported with exactly those bits (an absent character is null at every level, not only at the top)
				{
					let data = if fo { g1.frames.ports[pi].follower.as_ref().unwrap() } else { &g1.frames.ports[pi].leader };
					let mut nested: Vec<(&str, Option<&arrow2::bitmap::Bitmap>)> = vec![];
					match kind {
						Kind::Pre => {
							let x = &data.pre;
							nested.push(("", x.validity.as_ref()));
							nested.push(("position", x.position.validity.as_ref()));
							nested.push(("joystick", x.joystick.validity.as_ref()));
							nested.push(("cstick", x.cstick.validity.as_ref()));
							nested.push(("triggers_physical", x.triggers_physical.validity.as_ref()));
						}
						_ => {
							let x = &data.post;
							nested.push(("", x.validity.as_ref()));
							nested.push(("position", x.position.validity.as_ref()));
							if let Some(vl) = &x.velocities {
								nested.push(("velocities", vl.validity.as_ref()));
							}
						}
					}
					for (name, mem) in nested {
						let arr = if name.is_empty() { ksa } else { view::arrow_child(ksa, name).and_then(view::arrow_struct).ok_or_else(|| e("name", format!("no struct {}.{}.{}.{}", pname, cname, kind.name(), name)))? };
						for i in 0..rows {
							let a = arr.validity().map_or(true, |b| b.get_bit(i));
							let m = mem.map_or(true, |b| b.get_bit(i));
							// a struct that keeps validity bits keeps them in step with the character's presence
							let present = rg.rows[i].chars[pi][fo as usize].is_some();
							if mem.is_some() && m != present {
								return Err(e("validity", format!("{}.{}.{}{}{} row {}: the in-memory struct's validity bit is {} but the character is {}", pname, cname, kind.name(), if name.is_empty() { "" } else { "." }, name, i, m, if present { "present" } else { "absent" })));
							}
							if a != m {
								return Err(e("validity", format!("{}.{}.{}{}{} row {}: exported validity bit {} but the in-memory struct has {}", pname, cname, kind.name(), if name.is_empty() { "" } else { "." }, name, i, a, m)));
							}
						}
					}
				}
				for li in 0..n {
					let row = &spec::layout(kind)[li];
					let mem = FrameLike::leaf(&g1.frames, kind, pi, fo, li);
					match mem {
						None => {
							if view::arrow_leaf(ksa, row.path).is_ok() {
								return Err(e("gate", format!("{}.{}.{}.{} exported but absent in memory", pname, cname, kind.name(), row.path)));
							}
						}
						Some(m) => {
							let a = view::arrow_leaf(ksa, row.path).map_err(|m| e("name", m))?;
							if a.ty() != m.ty() || a.len() != rows {
								return Err(e("type", format!("{}.{}.{}.{}: exported type/len {:?}/{} vs in-memory {:?}/{}", pname, cname, kind.name(), row.path, a.ty(), a.len(), m.ty(), m.len())));
							}
							for i in 0..rows {
								if a.bits(i) != m.bits(i) {
									return Err(e("value", format!("{}.{}.{}.{} row {}: exported {:#x}, in memory {:#x}", pname, cname, kind.name(), row.path, i, a.bits(i), m.bits(i))));
								}
								if !a.is_valid(i) && rg.rows[i].chars[pi][fo as usize].is_some() {
									return Err(e("validity", format!("{}.{}.{}.{} row {} is null although the character is present", pname, cname, kind.name(), row.path, i)));
								}
							}
						}
					}
				}
			}
		}
	}
	for kind in [Kind::Start, Kind::End] {
		if !spec::gte(v, kind.since()) {
			continue;
		}
		let n = spec::layout(kind).len();
		let ksa = view::arrow_child(&sa, kind.name()).and_then(view::arrow_struct);
		if let Some(k) = ksa {
			no_nulls(k, kind.name())?;
		}
		for li in 0..n {
			let row = &spec::layout(kind)[li];
			if let Some(m) = FrameLike::leaf(&g1.frames, kind, 0, false, li) {
				let ksa = ksa.ok_or_else(|| e("name", format!("no struct '{}'", kind.name())))?;
				let a = view::arrow_leaf(ksa, row.path).map_err(|m| e("name", m))?;
				for i in 0..rows {
					if a.bits(i) != m.bits(i) {
						return Err(e("value", format!("{}.{} row {}: exported {:#x}, in memory {:#x}", kind.name(), row.path, i, a.bits(i), m.bits(i))));
					}
				}
			}
		}
	}
	if spec::gte(v, (3, 0)) {
		let la = view::arrow_child(&sa, "item").and_then(view::arrow_list).ok_or_else(|| e("name", "no list 'item'".into()))?;
		no_nulls(la, "item")?;
		no_nulls(la.values().as_ref(), "item values")?;
		let offs: Vec<i32> = la.offsets().buffer().iter().copied().collect();
		let mem_offs = g1.frames.item_offsets().unwrap();
		if offs != mem_offs {
			return Err(e("items", format!("exported item offsets {:?} differ from in-memory {:?}", offs, mem_offs)));
		}
		let isa = view::arrow_struct(la.values().as_ref()).ok_or_else(|| e("name", "item list values are not a struct".into()))?;
		let nitems = *mem_offs.last().unwrap_or(&0) as usize;
		for li in 0..view::ITEM.len() {
			let row = &spec::layout(Kind::Item)[li];
			if let Some(m) = FrameLike::leaf(&g1.frames, Kind::Item, 0, false, li) {
				let a = view::arrow_leaf(isa, row.path).map_err(|m| e("name", m))?;
				for i in 0..nitems {
					if a.bits(i) != m.bits(i) {
						return Err(e("value", format!("item.{} #{}: exported {:#x}, in memory {:#x}", row.path, i, a.bits(i), m.bits(i))));
					}
				}
			}
		}
	}
	// import direction
	let back = im::Frame::from_struct_array(sa, version);
	let g3 = Game { start: g1.start.clone(), end: g1.end.clone(), frames: back, metadata: g1.metadata.clone(), gecko_codes: clone_gecko(&g1.gecko_codes), hash: None, quirks: g1.quirks };
	let w = write_slp(&g3).map_err(|f| e(&format!("reimport-write:{}", f.key()), format!("writing the re-imported frames failed: {}", f.describe())))?;
	if let Some(d) = first_diff(input, &w) {
		return Err(e("reimport-bytes", format!("from_struct_array(into_struct_array(f)) serialises differently: first difference at byte {}", d)));
	}
	frames_equal(&g1.frames, &g3.frames).map_err(|m| e("reimport-frames", m))?;
	// from a non-initial state: frames imported from a WINDOW of the exported array (rows k..; their buffers then
	// start at a non-zero offset, validity bitmaps at a bit offset that is not a multiple of 8 for k = 1, 3, 7, 9),
	// exported and imported again, against the same window imported directly
	let full = g3.frames.into_struct_array(version, &occ);
	for k in [1usize, 3, 7, 8, 9] {
		if k >= rows {
			continue;
		}
		let window = full.clone().sliced(k, rows - k);
		let fa = im::Frame::from_struct_array(window.clone(), version);
		let fb = im::Frame::from_struct_array(window, version);
		let exported = fa.into_struct_array(version, &occ);
		if exported.len() != rows - k {
			return Err(e("window-rows", format!("frames imported from rows {}.. of the exported array export {} rows, expected {}", k, exported.len(), rows - k)));
		}
		let fc = im::Frame::from_struct_array(exported, version);
		frames_equal(&fb, &fc).map_err(|m| e("window-reexport", format!("frames imported from rows {}.. of the exported array, then exported and imported again, differ from the window: {}", k, m)))?;
	}
	Ok(fnv_mix(rows as u64, xx(format!("{:?}", actual).as_bytes())))
}

pub fn run() {
	let cx = ctx();
	cx.note("rule", json!("(windows) for every case, frames imported from rows k.. (k = 1, 3, 7, 8, 9) of the exported array are exported and imported again and equal the window imported directly (buffers at non-zero offsets, bitmaps at bit offsets that are not multiples of 8); all 784 versions x all 81 port/Ice-Climbers configurations (the player-less one included) with a 2-row game (second row: one character absent, one item), plus (thorough) the C04 history exploration; expected schema built twice - from the independent SPEC transcription and from gen/resources/frames.json read at check time; every exported leaf addressed by NAME and compared with the in-memory column, struct validity with presence, list offsets with item offsets; import direction must serialise to the identical .slp; non-trivial = has an absence or an item"));
	cx.note("exhaustive", json!(true));
	cx.note("assumptions", json!(["nullability flags and field metadata are not part of the schema comparison (the property names field names, nesting, order and primitive types)", "for 3.0-3.6, where Frame End carries no field, `end` is accepted as omitted or empty, and likewise `ports` for a game without players: Arrow cannot represent a struct without fields"]));
	let mut cases: Vec<AbsReplay> = vec![];
	let all_ports = all_port_configs();
	for v in spec::v_all() {
		for ports in &all_ports {
			let regime = spec::regime(v);
			// without players and before 2.2 (no Frame Start) there is no event that could make a frame
			let mut a = base_replay(v, ports.clone(), if ports.is_empty() && regime == 0 { 0 } else { 2 });
			a.metadata = None;
			a.fill = Fill::A;
			if regime == 2 && !a.frames.is_empty() {
				a.frames[1].items = 1;
			}
			// the last character is absent from the second row (if that leaves someone, or the regime allows empty frames)
			if n_chars(ports) > 1 || (regime > 0 && !ports.is_empty()) {
				let last = ports.len() - 1;
				let fo = ports[last].ics as usize;
				a.frames[1].present[last][fo] = false;
			}
			cases.push(a);
		}
	}
	cx.note("configurations", json!(cases.len()));
	par_each(cases.into_iter(), |abs, local| {
		let bytes = Arc::new(record(&abs).doc.assemble());
		let p = P { class: "config", ..Default::default() };
		eval_case("arrow", o_arrow, &bytes, &p, || abs.describe(), local);
	});
	{
		let uni = universe(cx.quick());
		par_each(uni.into_iter(), |abs, local| {
			let bytes = Arc::new(record(&abs).doc.assemble());
			let p = P { class: "universe", ..Default::default() };
			eval_case("arrow", o_arrow, &bytes, &p, || abs.describe(), local);
		});
	}
	let depth = if cx.quick() { None } else { Some(Depth::Quick) };
	if let Some(d) = depth {
		let mut hs = vec![];
		history_replays(d, |a, _| hs.push(a));
		par_each(hs.into_iter(), |abs, local| {
			let bytes = Arc::new(record(&abs).doc.assemble());
			let p = P { class: "history", ..Default::default() };
			eval_case("arrow", o_arrow, &bytes, &p, || abs.describe(), local);
		});
	}
	finish(cx);
}
