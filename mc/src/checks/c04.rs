//! C04: frame rows, presence and item grouping mirror the event history.
//! C13: the row view equals the columns (rides on the same exploration).
//! C03 (history part): values sit at their spec offsets.

use std::sync::Arc;

use serde_json::json;

use crate::gen::*;
use crate::inc::*;
use crate::rec::*;
use crate::util::*;

pub const ORACLES: &[(&str, Oracle)] = &[("model", o_model), ("incremental", o_incremental)];

pub fn run_histories(aspects_oneshot: i64, aspects_inc: i64, fixtures_too: bool) {
	let cx = ctx();
	let depth = if cx.quick() { Depth::Quick } else { Depth::Thorough };
	let mut cases: Vec<(AbsReplay, usize)> = vec![];
	history_replays(depth, |a, d| cases.push((a, d)));
	cx.note("histories", json!(cases.len()));
	par_each(cases.into_iter(), |(abs, dev), local| {
		let rec = record(&abs);
		let bytes = Arc::new(rec.doc.assemble());
		let class: &'static str = match dev {
			0 => "dev0",
			1 => "dev1",
			2 => "dev2",
			_ => "dev3+",
		};
		if aspects_oneshot != 0 {
			let mut p = P { class, ..Default::default() };
			// the trip through .slpp (where asked for) is made for the histories with at most one deviation
			p.n[0] = if dev <= 1 { aspects_oneshot } else { aspects_oneshot & !A_VIA_SLPP };
			eval_case("model", o_model, &bytes, &p, || abs.describe(), local);
		}
		if aspects_inc != 0 {
			let mut p = P { class, ..Default::default() };
			p.n[0] = aspects_inc;
			p.n[4] = -1;
			eval_case("incremental", o_incremental, &bytes, &p, || abs.describe(), local);
		}
	});
	{
		// the cross product of all optional dimensions
		let uni = universe(cx.quick());
		cx.note("universe_replays", json!(uni.len()));
		par_each(uni.into_iter(), |abs, local| {
			let bytes = Arc::new(record(&abs).doc.assemble());
			if aspects_oneshot != 0 {
				let mut p = P { class: "universe", ..Default::default() };
				p.n[0] = aspects_oneshot;
				eval_case("model", o_model, &bytes, &p, || abs.describe(), local);
			}
			if aspects_inc != 0 {
				let mut p = P { class: "universe", ..Default::default() };
				p.n[0] = aspects_inc;
				p.n[4] = -1;
				eval_case("incremental", o_incremental, &bytes, &p, || abs.describe(), local);
			}
		});
	}
	{
		// long games
		let longs = long_replays(cx.quick());
		par_each(longs.into_iter(), |abs, local| {
			let bytes = Arc::new(record(&abs).doc.assemble());
			let label = format!("long game v{}.{}.{} {} frames", abs.ver.0, abs.ver.1, abs.ver.2, abs.frames.len());
			if aspects_oneshot != 0 {
				let mut p = P { class: "long-game", ..Default::default() };
				p.n[0] = aspects_oneshot;
				eval_case("model", o_model, &bytes, &p, || label.clone(), local);
			}
			if aspects_inc != 0 {
				let mut p = P { class: "long-game", ..Default::default() };
				p.n[0] = aspects_inc | A_LASTONLY;
				p.n[4] = -1;
				eval_case("incremental", o_incremental, &bytes, &p, || label.clone(), local);
			}
		});
	}
	if fixtures_too {
		let fx: Vec<_> = fixtures().into_iter().filter(|f| f.rg.is_some()).collect();
		cx.note("fixture_replays_checked", json!(fx.len()));
		par_each(fx.into_iter(), |f, local| {
			let bytes = Arc::new(f.bytes);
			let mut p = P { class: "fixture", ..Default::default() };
			p.n[0] = aspects_oneshot;
			let path = f.path.clone();
			eval_case("model", o_model, &bytes, &p, || path, local);
		});
	}
}

pub fn run() {
	let cx = ctx();
	match bind_fixtures() {
		Ok((b, c, names)) => cx.note("model_bound_to_fixtures", json!({"replays_walked_with_spec_sizes": b, "of_which_canonical_reemission_is_byte_identical": c, "files": names})),
		Err(e) => crate::common::machinery(&e),
	}
	cx.note("rule", json!("every history of the recorder grammar within the bound: frame-id step in {+1, 0 (rollback), -1, +2 (gap)} x presence pattern of every character x 0..2 items per frame, in all three framing regimes; each executed by the one-shot reader AND event by event through parse_event with ParseState::frames() inspected after every event; non-trivial = has an absence, rollback or item"));
	cx.note("bounds", json!({"quick": "25 layout-class representatives x 6 port configs x <=3 frames x <=2 deviations, + all presence patterns for <=4 characters at 2 frames", "thorough": "first+last of each layout class x all 81 port configs (<=3 frames, <=1 deviation; the 6 small configs <=4 frames, <=3 deviations) + all presence patterns for <=4 characters at 3 frames"}));
	cx.note("exhaustive", json!(true));
	cx.note("state_key", json!("(layout class, port config, frame open?, per character: pre/post seen in the open frame, items in the open frame, per character: was ever absent (validity bitmap materialised), rollback offset, splitter progress, gecko seen, ends seen, rows>=2)"));
	cx.note("assumptions", json!(["presence of a character in a frame occurrence is defined by the reference walker: it has a Pre and a Post event between the frame's opening and closing events"]));
	run_histories(A_ONESHOT | A_TRANSPOSE, A_ROWS, true);
	run_bfs(A_ROWS | A_BYTES | A_TRANSPOSE);
	finish(cx);
}


/// Explicit-state search to closure over the abstract parser states (see bfs.rs).
pub fn run_bfs(aspects: i64) {
	use crate::bfs::{explore, Cfg};
	let cx = ctx();
	let quick = cx.quick();
	let mut cfgs: Vec<Cfg> = vec![];
	let versions: Vec<(u8, u8)> = if quick { vec![(0, 1), (2, 2), (3, 16)] } else { vec![(0, 1), (1, 4), (2, 0), (2, 2), (2, 255), (3, 0), (3, 6), (3, 7), (3, 16)] };
	for v in versions {
		let port_sets: Vec<Vec<PortCfg>> = if quick {
			vec![vec![pc(1, false)], vec![pc(2, true)], vec![pc(0, false), pc(3, false)]]
		} else {
			vec![vec![pc(1, false)], vec![pc(2, true)], vec![pc(0, false), pc(3, false)], vec![pc(0, true), pc(2, false)], vec![pc(1, false), pc(2, false), pc(3, false)]]
		};
		for ports in port_sets {
			cfgs.push(Cfg { ver: v, ports, max_items: if quick { 1 } else { 2 }, rollbacks: true });
		}
	}
	let results = std::sync::Mutex::new(vec![]);
	par_each(cfgs.into_iter(), |cfg, local| {
		let st = explore(&cfg, if quick { 20_000 } else { 400_000 }, if quick { 1 } else { 3 }, aspects, local);
		results.lock().unwrap().push(serde_json::json!({
			"version": format!("{}.{}", cfg.ver.0, cfg.ver.1),
			"characters": crate::rec::n_chars(&cfg.ports),
			"abstract_states": st.states,
			"transitions": st.transitions,
			"revisits_executed": st.revisits_executed,
			"max_depth_events": st.max_depth,
			"closed": st.closed,
		}));
	});
	let mut r = results.into_inner().unwrap();
	r.sort_by_key(|v| v.to_string());
	let total_states: u64 = r.iter().map(|v| v["abstract_states"].as_u64().unwrap()).sum();
	let all_closed = r.iter().all(|v| v["closed"].as_bool().unwrap());
	cx.note("bfs", serde_json::json!({"what": "explicit-state BFS to closure over abstract parser states (phase, characters with pre in the open frame, items, ever-absent set, rows capped, rollback offset clamped); each transition = one real parse_event call judged against the reference walker; revisits of known states executed as an abstraction-soundness check", "configurations": r, "total_abstract_states": total_states, "all_closed": all_closed}));
	if !all_closed {
		cx.cap("bfs: at least one configuration hit the state cap before closure".into());
	}
}
