//! C01: .slp -> game -> .slp is the identity on well-formed replays.

use std::sync::Arc;

use crate::common::*;
use crate::hist::{histories, HistSpace};
use crate::ops::*;
use crate::rec::*;
use crate::spec;
use crate::util::*;

pub const ORACLES: &[(&str, Oracle)] = &[("roundtrip", o_roundtrip)];

pub fn o_roundtrip(input: &[u8], p: &P) -> Out {
	let rg = domain(input, "C01");
	let mut out = out_from(&rg);
	let g = match read_slp(input, false, p.hash) {
		Ok(g) => g,
		Err(f) => {
			out.obs = 1;
			out.viol = viol("roundtrip", p, &format!("read-failed:{}", f.key()), format!("reading a well-formed replay failed: {}", f.describe()));
			return out;
		}
	};
	let w = match write_slp(&g) {
		Ok(w) => w,
		Err(f) => {
			out.obs = 2;
			out.viol = viol("roundtrip", p, &format!("write-failed:{}", f.key()), format!("writing the parsed game failed: {}", f.describe()));
			return out;
		}
	};
	out.obs = xx(&w);
	if let Some(d) = first_diff(input, &w) {
		let symptom = if (11..15).contains(&d) && input.len() == w.len() && input[15..] == w[15..] {
			"declared-raw-length-differs".to_string()
		} else if d < 15 {
			"header-differs".to_string()
		} else if d < rg.boundaries.first().copied().unwrap_or(0) {
			"table-or-start-differs".to_string()
		} else if d >= rg.raw_end {
			"tail-differs".to_string()
		} else {
			"events-differ".to_string()
		};
		out.viol = viol(
			"roundtrip",
			p,
			&symptom,
			format!("write(read(x)) != x: first difference at byte {} (input {} bytes, output {} bytes; input {:02x?} vs output {:02x?})", d, input.len(), w.len(), &input[d..(d + 4).min(input.len())], &w[d..(d + 4).min(w.len())]),
		);
	}
	out
}

struct Case {
	abs: AbsReplay,
	p: P,
}

fn cases(quick: bool) -> Vec<Case> {
	let mut out = vec![];
	let versions = if quick { spec::v_rep() } else { spec::v_edge() };
	let fills: &[Fill] = if quick { &[Fill::A, Fill::Ones] } else { &[Fill::A, Fill::B, Fill::Zero, Fill::Ones, Fill::Special] };
	let metas: Vec<Option<crate::ubj::Meta>> = vec![Some(default_meta()), None, Some(vec![])];
	for v in &versions {
		let regime = spec::regime(*v);
		let port_sets = if quick { small_port_configs() } else { all_port_configs() };
		for ports in port_sets {
			let small = small_port_configs().contains(&ports) || ports.iter().all(|p| p.ptype == 0) && ports.len() <= 2;
			let (maxf, budget) = if quick {
				(3, 2)
			} else if small {
				(4, 3)
			} else {
				(2, 1)
			};
			if ports.is_empty() && regime == 0 {
				// a game without characters cannot have frames before 2.2: only the zero-frame game
			}
			let sp = HistSpace { regime, ports: ports.clone(), max_frames: if ports.is_empty() && regime == 0 { 0 } else { maxf }, min_frames: 0, budget, free_presence: false, max_items: 2 };
			for (h, dev) in histories(&sp) {
				let base = AbsReplay { ver: (v.0, v.1, 0), ports: ports.clone(), teams: false, gecko: Gecko::None, frames: h, ends: 1, metadata: Some(default_meta()), fill: Fill::A };
				if dev == 0 {
					// the full cross product of end / metadata / gecko / fill / hash at deviation 0
					for ends in 0..=2u8 {
						for meta in &metas {
							let geckos: Vec<Gecko> = if spec::gte(*v, (3, 3)) {
								vec![Gecko::None, Gecko::Live { live: 512, nonzero_pad: false }, Gecko::Live { live: 700, nonzero_pad: true }, Gecko::Live { live: 66000, nonzero_pad: false }]
							} else {
								vec![Gecko::None]
							};
							for gk in geckos {
								for fill in fills {
									if matches!(gk, Gecko::Live { live: 66000, .. }) && (*fill != Fill::A || ends != 1) {
										continue;
									}
									let mut a = base.clone();
									a.ends = ends;
									a.metadata = meta.clone();
									a.gecko = gk;
									a.fill = *fill;
									let class = match (ends, meta.is_some()) {
										(0, _) => "ends0",
										(2, _) => "ends2",
										(_, false) => "nometa",
										_ => "canonical",
									};
									out.push(Case { abs: a, p: P { class, hash: false, ..Default::default() } });
								}
							}
						}
					}
				} else {
					for fill in fills {
						let mut a = base.clone();
						a.fill = *fill;
						out.push(Case { abs: a.clone(), p: P { class: "history", ..Default::default() } });
						if *fill == Fill::A {
							// the same history cut off before Game End, without metadata
							a.ends = 0;
							a.metadata = None;
							out.push(Case { abs: a, p: P { class: "history-ends0", ..Default::default() } });
						}
					}
				}
			}
		}
	}
	// every version, default two-player history, the 9 end/metadata combinations
	for v in spec::v_all() {
		for ends in 0..=2u8 {
			for meta in &metas {
				let mut a = base_replay(v, vec![pc(0, false), pc(1, true)], 2);
				a.ends = ends;
				a.metadata = meta.clone();
				if spec::regime(v) == 2 {
					a.frames[1].items = 1;
				}
				a.frames[1].present[1][1] = false;
				out.push(Case { abs: a, p: P { class: if ends == 0 { "ends0" } else { "allversions" }, ..Default::default() } });
			}
		}
	}
	out
}

pub fn run() {
	let cx = ctx();
	let cs = cases(cx.quick());
	cx.note("rule", serde_json::json!("well-formed replays emitted by the reference recorder: version x port config x deviation-bounded frame history (absence, rollback/gap, items) x fill pattern x gecko x {0,1,2} game ends x {metadata, none, empty}; plus long games (300 / 1100 frames: beyond the initial column capacity, absences around bitmap word boundaries, rollbacks; one game with 67,100 items); non-trivial = has an absence, rollback, item, gecko block, missing/double end or no metadata; distinct = distinct input bytes"));
	cx.note("bounds", serde_json::json!({"versions": if cx.quick() {"first member of each of the 25 layout classes (+ all 784 versions with a 2-frame history)"} else {"first and last member of each layout class (+ all 784)"}, "frames": if cx.quick() {"<=3"} else {"<=4 (P_small) / <=2 (all 81 port configs)"}, "deviations": if cx.quick() {"<=2"} else {"<=3 (P_small) / <=1 (all 81)"}}));
	cx.note("exhaustive", serde_json::json!(true));
	cx.note("assumptions", serde_json::json!(["32-bit field values are exercised by position-unique patterns, all-ones and IEEE specials, not all 2^32 values", "the reference recorder's canonical order equals real recorders' (bound by re-deriving the repository's fixture replays)"]));
	let mut cs = cs;
	for a in crate::gen::universe(cx.quick()) {
		cs.push(Case { abs: a, p: P { class: "universe", ..Default::default() } });
	}
	for a in crate::gen::long_replays(cx.quick()) {
		cs.push(Case { abs: a.clone(), p: P { class: "long-game", ..Default::default() } });
	}
	par_each(cs.into_iter(), |c, local| {
		let rec = record(&c.abs);
		let bytes = Arc::new(rec.doc.assemble());
		eval_case("roundtrip", o_roundtrip, &bytes, &c.p, || c.abs.describe(), local);
	});
	finish(cx);
}
