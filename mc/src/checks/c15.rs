//! C15: rollback de-duplication marks all but the first/last occurrence of each frame id.

use std::sync::Arc;

use arrow2::array::PrimitiveArray;
use serde_json::json;

use peppi::frame::immutable as im;
use peppi::frame::Rollbacks;

use crate::util::*;

pub const ORACLES: &[(&str, Oracle)] = &[("rollbacks", o_rollbacks)];

fn check(ids: &[i32]) -> Result<(), (String, String)> {
	let f = im::Frame { id: PrimitiveArray::<i32>::from_vec(ids.to_vec()), ports: vec![], start: None, end: None, item_offset: None, item: None };
	for (mode, name) in [(Rollbacks::ExceptFirst, "keep-first"), (Rollbacks::ExceptLast, "keep-last")] {
		let got = match catch(|| f.rollbacks(mode)) {
			Ok(g) => g,
			Err(pn) => return Err((pn.key(), format!("rollbacks({}) panicked on ids {:?}: {}", name, ids, pn.msg))),
		};
		if got.len() != ids.len() {
			return Err(("mask-length".into(), format!("rollbacks({}) on {:?}: mask has {} entries for {} rows", name, ids, got.len(), ids.len())));
		}
		let mut unmarked = std::collections::BTreeMap::new();
		for i in 0..ids.len() {
			let want = match mode {
				Rollbacks::ExceptFirst => ids[..i].contains(&ids[i]),
				Rollbacks::ExceptLast => ids[i + 1..].contains(&ids[i]),
			};
			if got[i] != want {
				return Err(("mask-value".into(), format!("rollbacks({}) on {:?}: row {} marked {} but {}", name, ids, i, got[i], if want { "an occurrence of the same id to keep exists" } else { "it is the occurrence to keep" })));
			}
			if !got[i] {
				*unmarked.entry(ids[i]).or_insert(0) += 1;
			}
		}
		if unmarked.values().any(|c| *c != 1) {
			return Err(("one-per-id".into(), format!("rollbacks({}) on {:?}: not exactly one unmarked row per id", name, ids)));
		}
	}
	Ok(())
}

/// p.s = comma-separated ids
pub fn o_rollbacks(_input: &[u8], p: &P) -> Out {
	let mut out = Out { transitions: 2, nontrivial: true, ..Default::default() };
	let parse = |s: &str| -> Vec<i32> { s.split(',').filter(|s| !s.is_empty()).map(|s| s.parse().unwrap()).collect() };
	let text = p.s.as_deref().unwrap_or("");
	if let Some((a, b)) = text.split_once('|') {
		// a call history: game A, then game B, on a thread that has made no call before
		let (a, b) = (parse(a), parse(b));
		let r = std::thread::spawn(move || check(&a).map_err(|(k, m)| (format!("first-call:{}", k), m)).and_then(|_| check(&b).map_err(|(k, m)| (format!("second-call:{}", k), format!("after a call on {:?}: {}", a, m))))).join();
		match r {
			Ok(Ok(())) => {}
			Ok(Err((k, m))) => out.viol = crate::common::viol("rollbacks", p, &k, m),
			Err(_) => out.viol = crate::common::viol("rollbacks", p, "thread-panicked", "the thread running the two calls panicked".into()),
		}
		return out;
	}
	if let Err((k, m)) = check(&parse(text)) {
		out.viol = crate::common::viol("rollbacks", p, &k, m);
	}
	out
}

fn seqs_upto(al: &[i32], l: usize) -> Vec<Vec<i32>> {
	let mut out: Vec<Vec<i32>> = vec![vec![]];
	let mut start = 0;
	for _ in 0..l {
		let end = out.len();
		for i in start..end {
			for x in al {
				let mut v = out[i].clone();
				v.push(*x);
				out.push(v);
			}
		}
		start = end;
	}
	out
}

pub fn run() {
	let cx = ctx();
	cx.note("rule", json!("ALL frame-id sequences of length 0..L over an alphabet of K ids >= -123: contiguous {-123,-122,..} gapped {-123,-100,0,5,1000,5000}, and far-apart {-123, 65413, 65414, 200000} (length <= 5); quick K=4, L<=8 (87,381 sequences per alphabet); thorough K=6, L<=9 (12,093,235 per alphabet); both modes; Frame built directly from public fields; plus one id repeated 255 .. 65,537 times (alone and between other ids); plus call histories: ALL ordered pairs (A, B) of sequences of length <= 3 (thorough 4) over {-123,-122,-121,1000}, A then B on a fresh thread, both masks checked. Oracle (naive definition): marked(i) iff an earlier (keep-first) / later (keep-last) row has the same id; mask length == rows; exactly one unmarked row per distinct id. Non-trivial = the sequence has a repeated id; distinct by construction"));
	cx.note("exhaustive", json!(true));
	cx.note("assumptions", json!(["ids >= -123 as the property states; sequences longer than L and alphabets larger than K are not enumerated"]));
	let (k, l) = if cx.quick() { (4usize, 8usize) } else { (6, 9) };
	// third alphabet: ids more than 65,536 apart (games longer than 18 minutes), kept short
	let alphabets: Vec<Vec<i32>> = vec![(0..k as i32).map(|i| -123 + i).collect(), [-123, -100, 0, 5, 1000, 5000][..k].to_vec(), vec![-123, 65413, 65414, 200_000][..4.min(k)].to_vec()];
	// shard on (alphabet, length, first symbol, second symbol)
	let mut shards = vec![];
	for (ai, _) in alphabets.iter().enumerate() {
		let l = if ai == 2 { l.min(5) } else { l };
		for len in 0..=l {
			if len < 2 {
				shards.push((ai, len, 0usize, 0usize));
			} else {
				for a in 0..k {
					for b in 0..k {
						shards.push((ai, len, a, b));
					}
				}
			}
		}
	}
	let alph = alphabets.clone();
	par_each(shards.into_iter(), move |shard, local| {
		// every shard on a thread of its own: what the thread has called before is then the shard's own,
		// fixed sequence of games (and not whichever shards the worker happened to pick up)
		let alph = &alph;
		in_fresh_thread(move || shard_body(alph, k, shard, local));
	});
	fn shard_body(alph: &Vec<Vec<i32>>, k: usize, (ai, len, a, b): (usize, usize, usize, usize), local: &mut Local) {
		let al = &alph[ai];
		let free = if len < 2 { len } else { len - 2 };
		let k = al.len();
		let total = if len < 2 { k.pow(len as u32) } else { k.pow(free as u32) };
		if a >= k || b >= k {
			return;
		}
		let mut ids = vec![0i32; len];
		for mut idx in 0..total {
			if len >= 2 {
				ids[0] = al[a];
				ids[1] = al[b];
				for j in 0..free {
					ids[2 + j] = al[idx % k];
					idx /= k;
				}
			} else {
				for j in 0..len {
					ids[j] = al[idx % k];
					idx /= k;
				}
			}
			local.evaluations += 1;
			local.transitions += 2;
			let mut sorted = ids.clone();
			sorted.sort();
			sorted.dedup();
			let repeats = sorted.len() < ids.len();
			if repeats {
				local.nontrivial += 1;
				// distinct by construction of the enumeration; only the non-trivial ones are counted as such
				local.bulk += 1;
			}
			local.states.insert(fnv_mix(len as u64, sorted.len() as u64));
			local.outcomes.insert(fnv_mix(len as u64, (ids.len() - sorted.len()) as u64));
			if let Err((_, first)) = check(&ids) {
				let s: Vec<String> = ids.iter().map(|i| i.to_string()).collect();
				let p = P { class: "sequence", s: Some(Arc::from(s.join(",").as_str())), ..Default::default() };
				let empty = Arc::new(vec![]);
				eval_flagged("rollbacks", o_rollbacks, &empty, &p, || format!("ids {:?}", ids), first, local);
			}
		}
	}
	// call histories: ALL ordered pairs of sequences of length <= 3 (thorough: 4) over {-123,-122,-121,1000},
	// each pair on a fresh thread - the mask of a game must not depend on the game looked at before
	let hl = if cx.quick() { 3 } else { 4 };
	let hs = Arc::new(seqs_upto(&[-123, -122, -121, 1000], hl));
	let hs2 = hs.clone();
	par_each(0..hs.len(), move |i, local| {
		let fmt = |v: &Vec<i32>| v.iter().map(|x| x.to_string()).collect::<Vec<_>>().join(",");
		for b in hs2.iter() {
			let p = P { class: "history", s: Some(Arc::from(format!("{}|{}", fmt(&hs2[i]), fmt(b)).as_str())), ..Default::default() };
			let empty = Arc::new(vec![]);
			let a = &hs2[i];
			eval_case("rollbacks", o_rollbacks, &empty, &p, || format!("ids {:?} then ids {:?}", a, b), local);
		}
	});
	// one id many times over (counters of 8 and 16 bits wrap at 256 and 65,536), alone and between other ids
	{
		let mut longs: Vec<Vec<i32>> = vec![];
		for n in [255usize, 256, 257, 258, 511, 512, 513, 1025, 65_535, 65_536, 65_537] {
			longs.push(vec![-100; n]);
			let mut v = vec![-123];
			v.extend(std::iter::repeat(-122).take(n));
			v.push(-123);
			v.push(-121);
			longs.push(v);
		}
		par_each(longs.into_iter(), |ids, local| {
			let s: Vec<String> = ids.iter().map(|i| i.to_string()).collect();
			let p = P { class: "long-repeat", s: Some(Arc::from(s.join(",").as_str())), ..Default::default() };
			let empty = Arc::new(vec![]);
			let (n, first) = (ids.len(), ids[0]);
			eval_case("rollbacks", o_rollbacks, &empty, &p, || format!("{} ids starting with {}, one id repeated", n, first), local);
		});
	}
	cx.sample(json!({"ids": [-123, -122, -122, -121, -122], "keep_first": [false, false, true, false, true], "keep_last": [false, true, true, false, false]}));
	cx.sample(json!({"ids": [1000, -123, 1000], "keep_first": [false, false, true]}));
	finish(cx);
}
