//! C06: reading never panics, aborts or hangs, whatever bytes it is given.

use std::io::Read;
use std::sync::Arc;

use serde_json::json;

use peppi::io::slippi::de;

use crate::common::*;
use crate::env::{EnvReader, Sched};
use crate::inc::{err_kind, sched_of, set_sched};
use crate::ops::*;
use crate::rec::*;
use crate::spec;
use crate::ubj;
use crate::util::*;

pub const ORACLES: &[(&str, Oracle)] = &[("robust", o_robust), ("robust_inc", o_robust_inc), ("fault", o_fault), ("deepmeta", o_deepmeta)];

/// One-shot reader: any outcome but a panic / hang is fine.
pub fn o_robust(input: &[u8], p: &P) -> Out {
	let mut out = Out { transitions: 1, nontrivial: true, ..Default::default() };
	let mut r = EnvReader::new(input, Sched::Full);
	match read_slp_from(&mut r, p.skip, p.hash) {
		Ok(g) => out.obs = fnv_mix(1, g.frames.len() as u64),
		Err(Fail::Err(e)) => out.obs = fnv_mix(2, xx(sanitize(&e).as_bytes())),
		Err(Fail::Panic(pn)) => {
			out.obs = 3;
			out.viol = viol("robust", p, &pn.key(), format!("slippi::read panicked: {}", pn.msg));
		}
	}
	if out.viol.is_none() && r.overrun {
		out.viol = viol("robust", p, "no-progress", "the reader kept calling read() without consuming input (progress bound exceeded)".into());
	}
	out.states.push(out.obs);
	out
}

/// Incremental API driven as in the README.
pub fn o_robust_inc(input: &[u8], p: &P) -> Out {
	let mut out = Out { transitions: 0, nontrivial: true, ..Default::default() };
	let mut r = EnvReader::new(input, Sched::Full);
	let mut transitions = 0u64;
	let opts_val = slp_opts(p.skip, p.hash);
	let opts = if p.skip || p.hash { Some(&opts_val) } else { None };
	let res = catch(|| -> Result<u64, String> {
		let size = de::parse_header(&mut r, opts).map_err(|e| e.to_string())? as usize;
		let mut state = de::parse_start(&mut r, opts).map_err(|e| e.to_string())?;
		let mut n = 0u64;
		loop {
			let code = de::parse_event(&mut r, &mut state, opts).map_err(|e| e.to_string())?;
			transitions += 1;
			n = fnv_mix(n, code as u64);
			// the README prints the current frame number after every event
			let _ = state.frames().id.iter().last();
			if code == de::Event::GameEnd as u8 || state.bytes_read() >= size {
				break;
			}
			if transitions > 1_000_000 {
				return Err("too many events".into());
			}
		}
		let mut b = [0u8; 1];
		if r.read_exact(&mut b).is_ok() && b[0] == 0x55 {
			de::parse_metadata(&mut r, &mut state, opts).map_err(|e| e.to_string())?;
		}
		Ok(n)
	});
	out.transitions = transitions;
	match res {
		Ok(Ok(n)) => out.obs = fnv_mix(1, n),
		Ok(Err(e)) => out.obs = fnv_mix(2, xx(sanitize(&e).as_bytes())),
		Err(pn) => {
			out.obs = 3;
			out.viol = viol("robust_inc", p, &pn.key(), format!("the incremental API panicked: {}", pn.msg));
		}
	}
	if out.viol.is_none() && r.overrun {
		out.viol = viol("robust_inc", p, "no-progress", "the parser kept calling read() without consuming input".into());
	}
	out.states.push(out.obs);
	out
}

/// An injected stream error must surface as Err (an Interrupted one may also be retried).
pub fn o_fault(input: &[u8], p: &P) -> Out {
	let mut out = Out { transitions: 1, nontrivial: true, ..Default::default() };
	let sched = sched_of(p);
	let (idx, kind) = match &sched {
		Sched::FailAt(i, k) => (*i, *k),
		_ => machinery("o_fault needs a FailAt schedule"),
	};
	let mut r = EnvReader::new(input, sched);
	let res = read_slp_from(&mut r, p.skip, p.hash);
	let reached = r.calls > idx;
	match res {
		Err(Fail::Panic(pn)) => {
			out.obs = 3;
			out.viol = viol("fault", p, &pn.key(), format!("panic with a failing stream: {}", pn.msg));
		}
		Err(Fail::Err(e)) => out.obs = fnv_mix(2, xx(sanitize(&e).as_bytes())),
		Ok(g) => {
			out.obs = 1;
			if reached && kind != std::io::ErrorKind::Interrupted {
				out.viol = viol("fault", p, "error-swallowed", format!("read call #{} failed with {:?} but slippi::read returned Ok ({} frames)", idx, kind, g.frames.len()));
			} else if reached {
				// retried: must be exactly the clean result
				let clean = read_slp(input, p.skip, p.hash);
				match clean {
					Ok(c) => {
						if let Err(m) = games_equal(&c, &g, true) {
							out.viol = viol("fault", p, "interrupted-differs", format!("after a retried Interrupted read the game differs from the clean read: {}", m));
						} else if c.hash != g.hash {
							out.viol = viol("fault", p, "interrupted-hash", format!("after a retried Interrupted read the hash differs: {:?} vs {:?}", g.hash, c.hash));
						}
					}
					Err(f) => out.viol = viol("fault", p, "interrupted-ok", format!("clean read fails ({}) but the interrupted one succeeded", f.describe())),
				}
			}
		}
	}
	out.states.push(out.obs);
	out
}

/// Deeply nested metadata: the input is synthesised from p.n[0] = depth (too large to store).
/// Runs in a subprocess when called from the explorer (a stack overflow aborts the process).
pub fn o_deepmeta(_input: &[u8], p: &P) -> Out {
	let mut out = Out { transitions: 1, nontrivial: true, ..Default::default() };
	let depth = p.n[0] as usize;
	let bytes = deep_meta_file(depth, p.n[1] != 0);
	match read_slp(&bytes, p.skip, p.hash) {
		Ok(_) => out.obs = 1,
		Err(Fail::Err(e)) => out.obs = fnv_mix(2, xx(sanitize(&e).as_bytes())),
		Err(Fail::Panic(pn)) => {
			out.obs = 3;
			out.viol = viol("deepmeta", p, &pn.key(), format!("panic on metadata nested {} deep: {}", depth, pn.msg));
		}
	}
	out.states.push(out.obs);
	out
}

pub fn deep_meta_file(depth: usize, closed: bool) -> Vec<u8> {
	let abs = base_replay((3, 16), vec![pc(0, false), pc(1, false)], 1);
	let mut rec = record(&abs);
	let mut m = b"U\x08metadata{".to_vec();
	for _ in 0..depth {
		m.extend_from_slice(b"U\x01a{");
	}
	if closed {
		for _ in 0..depth {
			m.push(b'}');
		}
		m.push(b'}');
	}
	rec.doc.metadata = Some(m);
	let mut b = rec.doc.assemble();
	if !closed {
		b.pop();
	}
	b
}

// ------------------------------------------------------------------ deviations

#[derive(Clone, Debug)]
pub enum Dev {
	Delete(usize),
	Duplicate(usize),
	Swap(usize),
	Move(usize, usize),
	Insert(usize, u8),
	HdrId(usize, i32),
	HdrPort(usize, u8),
	HdrFollower(usize, u8),
	TableSize(usize, u16),
	TableRemove(usize),
	TableDup(usize),
	TableLenByte(u8),
	PayloadsCode(u8),
	RawLen(u32),
	SplitLive(usize, u16),
	SplitCode(usize, u8),
	SplitFinal(usize, u8),
	SplitDeclared(u16),
	SplitUnfinished,
	SplitTwice,
	MetaMarker(usize, u8),
	MetaLen(usize, u8),
	/// two adjacent metadata bytes at once: a type/length marker and the byte after it
	MetaPair(usize, u8, u8),
	ByteSet(usize, u8),
	Truncate(usize),
	Append(usize, Vec<u8>),
}

impl Dev {
	pub fn class(&self) -> &'static str {
		match self {
			Dev::Delete(..) => "ev-delete",
			Dev::Duplicate(..) => "ev-duplicate",
			Dev::Swap(..) => "ev-swap",
			Dev::Move(..) => "ev-move",
			Dev::Insert(..) => "ev-insert",
			Dev::HdrId(..) => "hdr-id",
			Dev::HdrPort(..) => "hdr-port",
			Dev::HdrFollower(..) => "hdr-follower",
			Dev::TableSize(..) => "table-size",
			Dev::TableRemove(..) => "table-remove",
			Dev::TableDup(..) => "table-dup",
			Dev::TableLenByte(..) => "table-lenbyte",
			Dev::PayloadsCode(..) => "payloads-code",
			Dev::RawLen(..) => "raw-len",
			Dev::SplitLive(..) | Dev::SplitCode(..) | Dev::SplitFinal(..) | Dev::SplitDeclared(..) | Dev::SplitUnfinished | Dev::SplitTwice => "splitter",
			Dev::MetaMarker(..) | Dev::MetaLen(..) | Dev::MetaPair(..) => "metadata",
			Dev::ByteSet(..) => "byte",
			Dev::Truncate(..) => "truncate",
			Dev::Append(..) => "suffix",
		}
	}
	pub fn structural(&self) -> bool {
		matches!(self, Dev::Delete(..) | Dev::Duplicate(..) | Dev::Swap(..) | Dev::Move(..) | Dev::Insert(..) | Dev::HdrId(..) | Dev::HdrPort(..) | Dev::HdrFollower(..))
	}
}

/// canonical instance of a known event kind for insertion
fn canonical_event(doc: &Doc, code: u8, v: (u8, u8)) -> Ev {
	let size = doc.size_of(code).map(|s| s as usize).unwrap_or(match code {
		0x10 => 516,
		0x35 => 4,
		0x3A => spec::frame_payload_size(spec::Kind::Start, spec::MAX),
		0x3B => spec::frame_payload_size(spec::Kind::Item, spec::MAX),
		0x3C => spec::frame_payload_size(spec::Kind::End, spec::MAX),
		0x3D => 512,
		_ => 8,
	});
	let mut payload: Vec<u8> = (0..size).map(|k| fill_byte(Fill::A, 0x77, k)).collect();
	let _ = v;
	if payload.len() >= 4 {
		payload[0..4].copy_from_slice(&(-123i32).to_be_bytes());
	}
	if matches!(code, 0x37 | 0x38) && payload.len() >= 6 {
		payload[4] = 0;
		payload[5] = 0;
	}
	if code == 0x10 && payload.len() == 516 {
		payload[512..514].copy_from_slice(&100u16.to_be_bytes());
		payload[514] = 0x3D;
		payload[515] = 1;
	}
	if code == 0x39 {
		for b in payload.iter_mut() {
			*b = 0;
		}
		payload[0] = 2;
	}
	Ev { code, payload, tag: Tag::Junk }
}

pub fn apply(doc: &Doc, dev: &Dev, v: (u8, u8)) -> Option<Vec<u8>> {
	let mut d = doc.clone();
	let n = d.events.len();
	match dev {
		Dev::Delete(i) => {
			if *i >= n {
				return None;
			}
			d.events.remove(*i);
		}
		Dev::Duplicate(i) => {
			if *i >= n {
				return None;
			}
			let e = d.events[*i].clone();
			d.events.insert(*i, e);
		}
		Dev::Swap(i) => {
			if *i + 1 >= n {
				return None;
			}
			d.events.swap(*i, *i + 1);
		}
		Dev::Move(i, j) => {
			if *i >= n || *j >= n || i == j {
				return None;
			}
			let e = d.events.remove(*i);
			d.events.insert(*j, e);
		}
		Dev::Insert(i, code) => {
			if *i > n {
				return None;
			}
			let e = canonical_event(&d, *code, v);
			if d.size_of(*code).is_none() {
				d.table.push((*code, e.payload.len() as u16));
			}
			d.events.insert(*i, e);
		}
		Dev::HdrId(i, delta) => {
			let e = d.events.get_mut(*i)?;
			if !matches!(e.code, 0x37 | 0x38 | 0x3A | 0x3B | 0x3C) {
				return None;
			}
			let id = i32::from_be_bytes([e.payload[0], e.payload[1], e.payload[2], e.payload[3]]);
			let new = match *delta {
				i32::MIN => i32::MIN,
				i32::MAX => i32::MAX,
				x => id.wrapping_add(x),
			};
			e.payload[0..4].copy_from_slice(&new.to_be_bytes());
		}
		Dev::HdrPort(i, port) => {
			let e = d.events.get_mut(*i)?;
			if !matches!(e.code, 0x37 | 0x38) || e.payload[4] == *port {
				return None;
			}
			e.payload[4] = *port;
		}
		Dev::HdrFollower(i, fo) => {
			let e = d.events.get_mut(*i)?;
			if !matches!(e.code, 0x37 | 0x38) || e.payload[5] == *fo {
				return None;
			}
			e.payload[5] = *fo;
		}
		Dev::TableSize(i, s) => {
			let t = d.table.get_mut(*i)?;
			if t.1 == *s {
				return None;
			}
			t.1 = *s;
			// the events keep their original lengths: the table now lies
			let mut out = d.assemble();
			// assemble() computes raw_len from actual payloads: keep it
			let _ = &mut out;
			return Some(out);
		}
		Dev::TableRemove(i) => {
			if *i >= d.table.len() {
				return None;
			}
			d.table.remove(*i);
		}
		Dev::TableDup(i) => {
			let t = *d.table.get(*i)?;
			d.table.push(t);
		}
		Dev::TableLenByte(b) => {
			let mut out = d.assemble();
			if out[16] == *b {
				return None;
			}
			out[16] = *b;
			return Some(out);
		}
		Dev::PayloadsCode(c) => {
			let mut out = d.assemble();
			if out[15] == *c {
				return None;
			}
			out[15] = *c;
			return Some(out);
		}
		Dev::RawLen(l) => {
			if *l as usize == d.raw_len() {
				return None;
			}
			d.raw_len_override = Some(*l);
		}
		Dev::SplitLive(i, live) => {
			let e = d.events.iter_mut().filter(|e| e.code == 0x10).nth(*i)?;
			e.payload[512..514].copy_from_slice(&live.to_be_bytes());
		}
		Dev::SplitCode(i, c) => {
			let e = d.events.iter_mut().filter(|e| e.code == 0x10).nth(*i)?;
			if e.payload[514] == *c {
				return None;
			}
			e.payload[514] = *c;
		}
		Dev::SplitFinal(i, f) => {
			let e = d.events.iter_mut().filter(|e| e.code == 0x10).nth(*i)?;
			if e.payload[515] == *f {
				return None;
			}
			e.payload[515] = *f;
		}
		Dev::SplitDeclared(s) => {
			let t = d.table.iter_mut().find(|t| t.0 == 0x10)?;
			t.1 = *s;
			for e in d.events.iter_mut().filter(|e| e.code == 0x10) {
				e.payload.resize(*s as usize, 0x41);
			}
		}
		Dev::SplitUnfinished => {
			let last = d.events.iter().rposition(|e| e.code == 0x10)?;
			d.events[last].payload[515] = 0;
		}
		Dev::SplitTwice => {
			let blocks: Vec<Ev> = d.events.iter().filter(|e| e.code == 0x10).cloned().collect();
			if blocks.is_empty() {
				return None;
			}
			let last = d.events.iter().rposition(|e| e.code == 0x10)?;
			for (k, b) in blocks.into_iter().enumerate() {
				d.events.insert(last + 1 + k, b);
			}
		}
		Dev::MetaMarker(off, b) => {
			let m = d.metadata.as_mut()?;
			if *off >= m.len() || m[*off] == *b {
				return None;
			}
			m[*off] = *b;
		}
		Dev::MetaLen(off, b) => {
			let m = d.metadata.as_mut()?;
			if *off >= m.len() || m[*off] == *b {
				return None;
			}
			m[*off] = *b;
		}
		Dev::MetaPair(off, b1, b2) => {
			let m = d.metadata.as_mut()?;
			if *off + 1 >= m.len() || (m[*off] == *b1 && m[*off + 1] == *b2) {
				return None;
			}
			m[*off] = *b1;
			m[*off + 1] = *b2;
		}
		Dev::ByteSet(off, b) => {
			let mut out = d.assemble();
			if *off >= out.len() || out[*off] == *b {
				return None;
			}
			out[*off] = *b;
			return Some(out);
		}
		Dev::Truncate(at) => {
			let mut out = d.assemble();
			if *at >= out.len() {
				return None;
			}
			out.truncate(*at);
			return Some(out);
		}
		Dev::Append(at, s) => {
			let mut out = d.assemble();
			out.truncate(*at);
			out.extend_from_slice(s);
			return Some(out);
		}
	}
	Some(d.assemble())
}

pub fn structural_devs(doc: &Doc, moves_all: bool) -> Vec<Dev> {
	let n = doc.events.len();
	let mut out = vec![];
	for i in 0..n {
		out.push(Dev::Delete(i));
		out.push(Dev::Duplicate(i));
		if i + 1 < n {
			out.push(Dev::Swap(i));
		}
		for j in 0..n {
			if j != i && (moves_all || j == 0 || j == 1 || j + 1 == n || j == n / 2 || (j as i64 - i as i64).abs() == 2) {
				out.push(Dev::Move(i, j));
			}
		}
	}
	for i in 0..=n {
		for code in [0x10u8, 0x35, 0x36, 0x37, 0x38, 0x39, 0x3A, 0x3B, 0x3C, 0x3D] {
			out.push(Dev::Insert(i, code));
		}
	}
	for i in 0..n {
		for d in [1, -1, i32::MIN, i32::MAX] {
			out.push(Dev::HdrId(i, d));
		}
		for p in [0u8, 1, 2, 3, 4, 5, 0x7F, 0xFF] {
			out.push(Dev::HdrPort(i, p));
		}
		for f in [0u8, 1, 2, 0xFF] {
			out.push(Dev::HdrFollower(i, f));
		}
	}
	out
}

pub fn other_devs(doc: &Doc, full_bytes: bool) -> Vec<Dev> {
	let mut out = vec![];
	for (i, (_, s)) in doc.table.iter().enumerate() {
		for ns in [0u16, 1, s.wrapping_sub(1), s.wrapping_add(1), 0xFFFF] {
			out.push(Dev::TableSize(i, ns));
		}
		out.push(Dev::TableRemove(i));
		out.push(Dev::TableDup(i));
	}
	for b in 0..=255u8 {
		out.push(Dev::TableLenByte(b));
		out.push(Dev::PayloadsCode(b));
	}
	let rl = doc.raw_len() as u32;
	for l in 0..=rl + 8 {
		out.push(Dev::RawLen(l));
	}
	out.push(Dev::RawLen(1 << 31));
	out.push(Dev::RawLen(u32::MAX));
	let nsplit = doc.events.iter().filter(|e| e.code == 0x10).count();
	for i in 0..nsplit {
		for live in [0u16, 1, 511, 512, 513, 0xFFFF] {
			out.push(Dev::SplitLive(i, live));
		}
		for c in 0..=255u8 {
			out.push(Dev::SplitCode(i, c));
		}
		for f in [0u8, 1, 2] {
			out.push(Dev::SplitFinal(i, f));
		}
	}
	if nsplit > 0 {
		for s in [1u16, 2, 3, 4, 5, 515, 516, 517, 65535] {
			out.push(Dev::SplitDeclared(s));
		}
		out.push(Dev::SplitUnfinished);
		out.push(Dev::SplitTwice);
	}
	if let Some(m) = &doc.metadata {
		for off in 0..m.len() {
			for b in [b'U', b'S', b'l', b'{', b'}', b'i', 0u8, 0xFF, m[off].wrapping_add(1), 200] {
				out.push(Dev::MetaMarker(off, b));
			}
			// a marker together with the byte after it (a length or value byte with and without the sign bit):
			// the integer kinds UBJSON knows, as a length type or a value type
			for b1 in [b'i', b'U', b'I', b'l', b'L', b'S', b'd', b'D', b'C', b'[', b'#', b'$'] {
				for b2 in [0u8, 0x7F, 0x80, 0xFF] {
					out.push(Dev::MetaPair(off, b1, b2));
				}
			}
		}
	}
	let bytes = doc.assemble();
	let bounds = doc.boundaries();
	let table_end = 15 + 2 + 3 * doc.table.len();
	for off in 0..bytes.len() {
		let b = bytes[off];
		let all = off < table_end || bounds.iter().any(|s| off >= *s && off < *s + 7);
		if all || full_bytes {
			for v in 0..=255u8 {
				out.push(Dev::ByteSet(off, v));
			}
		} else {
			for v in [0u8, 0xFF, b ^ 1, b ^ 0x80, b.wrapping_add(1)] {
				out.push(Dev::ByteSet(off, v));
			}
		}
	}
	for at in 0..bytes.len() {
		out.push(Dev::Truncate(at));
	}
	out
}

pub fn suffix_devs(doc: &Doc, two_bytes_all: bool) -> Vec<Dev> {
	let mut out = vec![];
	let mut states: Vec<usize> = vec![0, 11, 15];
	states.extend(doc.boundaries());
	let len = doc.assemble().len();
	states.push(len - 1);
	states.push(len);
	for at in states {
		out.push(Dev::Append(at, vec![]));
		for a in 0..=255u8 {
			out.push(Dev::Append(at, vec![a]));
		}
		for a in 0..=255u8 {
			let known = matches!(a, 0x10 | 0x35..=0x3D | 0x55 | 0x7d | 0x7b);
			if two_bytes_all || known {
				for b in 0..=255u8 {
					out.push(Dev::Append(at, vec![a, b]));
				}
			}
		}
	}
	out
}

pub fn bases(quick: bool) -> Vec<(AbsReplay, &'static str)> {
	let two = vec![pc(0, false), PortCfg { port: 2, ics: true, ptype: 1 }];
	let mk = |v: (u8, u8), gecko: bool| {
		let mut a = base_replay(v, two.clone(), 2);
		if spec::regime(v) == 2 {
			a.frames[0].items = 1;
		}
		a.frames[1].present[1][1] = false;
		if gecko {
			a.gecko = Gecko::Live { live: 700, nonzero_pad: true };
		}
		// metadata shapes differ between the bases (the reader logs parts of it)
		a.metadata = Some(match v {
			(1, 0) => vec![("lastFrame".into(), ubj::MVal::Int(5))],
			(2, 2) | (3, 0) => default_meta(),
			(2, 0) => vec![("players".into(), ubj::MVal::Str("not a map".into())), ("lastFrame".into(), ubj::MVal::Str("not an int".into()))],
			_ => vec![("a".into(), ubj::MVal::Str("xy".into())), ("m".into(), ubj::MVal::Map(vec![("k".into(), ubj::MVal::Int(-2))]))],
		});
		a
	};
	let mut v = vec![(mk((1, 0), false), "v1.0"), (mk((2, 2), false), "v2.2"), (mk((3, 16), true), "v3.16")];
	// a small replay with a doubled Game End: the reader classifies what follows the first one
	let mut de = mk((0, 1), false);
	de.ends = 2;
	v.push((de, "v0.1-double-end"));
	if !quick {
		v.push((mk((2, 0), false), "v2.0"));
		v.push((mk((3, 0), false), "v3.0"));
		v.push((mk((3, 7), true), "v3.7"));
	}
	v
}

fn run_dev(doc: &Doc, v: (u8, u8), devs: &[Dev], base: &'static str, local: &mut Local, opts: &[(bool, bool)], inc: bool) {
	let mut d2 = doc.clone();
	let mut label_devs = String::new();
	let mut bytes: Option<Vec<u8>> = None;
	for (k, dev) in devs.iter().enumerate() {
		if k + 1 < devs.len() {
			// intermediate structural deviation: apply on the Doc level
			match apply_doc(&d2, dev, v) {
				Some(nd) => d2 = nd,
				None => return,
			}
		} else {
			bytes = apply(&d2, dev, v);
		}
		label_devs.push_str(&format!("{:?};", dev));
	}
	let bytes = match bytes {
		Some(b) => Arc::new(b),
		None => return,
	};
	let class = devs.last().unwrap().class();
	for (skip, hash) in opts {
		let p = P { skip: *skip, hash: *hash, class, ..Default::default() };
		eval_case("robust", o_robust, &bytes, &p, || format!("{} {}", base, label_devs), local);
	}
	if inc {
		for skip in [false, true] {
			let p = P { skip, class, ..Default::default() };
			eval_case("robust_inc", o_robust_inc, &bytes, &p, || format!("{} {} (incremental, skip option {})", base, label_devs, skip), local);
		}
	}
}

/// apply a structural deviation and keep the result as a Doc (for pairs)
fn apply_doc(doc: &Doc, dev: &Dev, v: (u8, u8)) -> Option<Doc> {
	let mut d = doc.clone();
	let n = d.events.len();
	match dev {
		Dev::Delete(i) => {
			if *i >= n {
				return None;
			}
			d.events.remove(*i);
		}
		Dev::Duplicate(i) => {
			if *i >= n {
				return None;
			}
			let e = d.events[*i].clone();
			d.events.insert(*i, e);
		}
		Dev::Swap(i) => {
			if *i + 1 >= n {
				return None;
			}
			d.events.swap(*i, *i + 1);
		}
		Dev::Move(i, j) => {
			if *i >= n || *j >= n || i == j {
				return None;
			}
			let e = d.events.remove(*i);
			d.events.insert(*j, e);
		}
		Dev::Insert(i, code) => {
			if *i > n {
				return None;
			}
			let e = canonical_event(&d, *code, v);
			if d.size_of(*code).is_none() {
				d.table.push((*code, e.payload.len() as u16));
			}
			d.events.insert(*i, e);
		}
		Dev::HdrId(i, delta) => {
			let e = d.events.get_mut(*i)?;
			if !matches!(e.code, 0x37 | 0x38 | 0x3A | 0x3B | 0x3C) {
				return None;
			}
			let id = i32::from_be_bytes([e.payload[0], e.payload[1], e.payload[2], e.payload[3]]);
			let new = match *delta {
				i32::MIN => i32::MIN,
				i32::MAX => i32::MAX,
				x => id.wrapping_add(x),
			};
			e.payload[0..4].copy_from_slice(&new.to_be_bytes());
		}
		Dev::HdrPort(i, port) => {
			let e = d.events.get_mut(*i)?;
			if !matches!(e.code, 0x37 | 0x38) || e.payload[4] == *port {
				return None;
			}
			e.payload[4] = *port;
		}
		Dev::HdrFollower(i, fo) => {
			let e = d.events.get_mut(*i)?;
			if !matches!(e.code, 0x37 | 0x38) || e.payload[5] == *fo {
				return None;
			}
			e.payload[5] = *fo;
		}
		_ => return None,
	}
	Some(d)
}

pub fn run() {
	let cx = ctx();
	cx.note("rule", json!("structure-aware and byte-level deviations of well-formed replays of every framing regime, every single deviation and (thorough) every pair of event-level/header deviations: event delete/duplicate/swap/move/insert (each of the 10 known kinds at every boundary, declared in the table when the version lacks it), frame id / port / follower edits, payload-table edits (sizes, removal, duplication, every value of the length byte, wrong code), every declared raw length 0..actual+8 and 2^31, 2^32-1, splitter fields, metadata markers (single bytes, and marker + following byte pairs over the UBJSON type letters x {0,0x7F,0x80,0xFF}), table-declared unknown events (6 kinds up to 65,535 bytes) at every boundary including after Game End, every byte offset x {0,0xFF,b^1,b^0x80,b+1} and all 256 values in header/table/first 7 bytes of each event, every truncation, all byte strings of length <=1 (and <=2 with a known first byte; thorough: all) appended after every valid parser state; x {skip_frames} x {compute_hash}; the same inputs through the incremental API driven as in the README; (thorough also: pairs structural x table/splitter edits, pairs of byte edits in header+table, all 3-byte suffixes with a known first byte); read errors of 5 kinds injected at every read call; metadata nested 1..10^6 deep (subprocess). Oracle: returns Ok or Err - no panic, no abort, no read loop without progress, injected non-Interrupted errors surface as Err. Every case is non-trivial (a deviation from a well-formed replay); distinct = distinct mutated input x options"));
	cx.note("exhaustive", json!(true));
	cx.note("assumptions", json!(["'all byte strings' is not enumerable: decided is the <=1 (thorough: <=2) deviation neighbourhood of well-formed replays plus all short suffixes after every parser state", "a hang is a case without result after 60 s; a read loop without progress is detected by the environment reader's call bound (8*len+64 calls)"]));
	let all_opts = [(false, false), (true, false), (false, true), (true, true)];
	let mut jobs: Vec<(Arc<Doc>, (u8, u8), Vec<Dev>, &'static str, bool)> = vec![];
	for (abs, name) in bases(cx.quick()) {
		let v = abs.v2();
		let doc = Arc::new(record(&abs).doc);
		for d in structural_devs(&doc, !cx.quick()) {
			jobs.push((doc.clone(), v, vec![d], name, true));
		}
		for d in other_devs(&doc, false) {
			jobs.push((doc.clone(), v, vec![d], name, true));
		}
		for d in suffix_devs(&doc, !cx.quick()) {
			jobs.push((doc.clone(), v, vec![d], name, false));
		}
	}
	cx.note("single_deviations", json!(jobs.len()));
	par_each(jobs.into_iter(), |(doc, v, devs, name, inc), local| {
		let opts: &[(bool, bool)] = if matches!(devs[0], Dev::Append(..)) { &all_opts[..2] } else { &all_opts[..] };
		run_dev(&doc, v, &devs, name, local, opts, inc);
	});
	{
		// well-formed replays with events of codes the library does not know (declared in the table), at every
		// boundary - also after Game End, where the reader classifies what is left of the raw element
		let mut ujobs = vec![];
		for a in crate::checks::c08::bases(true) {
			let doc = Arc::new(record(&a).doc);
			for at in 1..=doc.events.len() {
				for k in 0..crate::checks::c08::UNKNOWN.len() {
					ujobs.push((doc.clone(), k, at));
				}
			}
			// and one after each of two Game Ends
			if a.ends == 2 {
				for k in [0usize, 3] {
					ujobs.push((doc.clone(), k, doc.events.len()));
				}
			}
		}
		cx.note("unknown_event_inputs", json!(ujobs.len()));
		par_each(ujobs.into_iter(), |(doc, k, at), local| {
			let bytes = Arc::new(crate::checks::c08::with_unknown(&doc, &[(k, at)]));
			for (skip, hash) in all_opts {
				let p = P { skip, hash, class: "unknown-event", ..Default::default() };
				eval_case("robust", o_robust, &bytes, &p, || format!("unknown event kind {} at boundary {}", k, at), local);
			}
			let p = P { class: "unknown-event", ..Default::default() };
			eval_case("robust_inc", o_robust_inc, &bytes, &p, || format!("unknown event kind {} at boundary {} (incremental)", k, at), local);
		});
	}
	if !cx.quick() {
		// all pairs of structural deviations (deviation bound 2), lazily enumerated
		for (abs, name) in bases(false) {
			let v = abs.v2();
			let doc = Arc::new(record(&abs).doc);
			let firsts = structural_devs(&doc, false);
			let docref = doc.clone();
			let it = firsts.into_iter().flat_map(move |d1| {
				let d = docref.clone();
				let seconds = match apply_doc(&d, &d1, v) {
					Some(nd) => structural_devs(&nd, false),
					None => vec![],
				};
				seconds.into_iter().map(move |d2| (d1.clone(), d2))
			});
			let doc2 = doc.clone();
			par_each(it, move |(d1, d2), local| {
				run_dev(&doc2, v, &[d1, d2], name, local, &all_opts[..1], true);
			});
		}
	}
	if !cx.quick() {
		// (structural, table/splitter/metadata) pairs
		for (abs, name) in bases(false) {
			let v = abs.v2();
			let doc = Arc::new(record(&abs).doc);
			let firsts = structural_devs(&doc, false);
			let docref = doc.clone();
			let it = firsts.into_iter().flat_map(move |d1| {
				let seconds: Vec<Dev> = match apply_doc(&docref, &d1, v) {
					Some(nd) => other_devs(&nd, false).into_iter().filter(|d| matches!(d, Dev::TableSize(..) | Dev::TableRemove(..) | Dev::TableDup(..) | Dev::SplitLive(..) | Dev::SplitFinal(..) | Dev::SplitDeclared(..) | Dev::SplitUnfinished | Dev::SplitTwice) || matches!(d, Dev::SplitCode(_, c) if [0x10u8, 0x35, 0x36, 0x37, 0x39, 0x3D, 0x00, 0xFF].contains(c))).collect(),
					None => vec![],
				};
				seconds.into_iter().map(move |d2| (d1.clone(), d2))
			});
			let doc2 = doc.clone();
			par_each(it, move |(d1, d2), local| {
				run_dev(&doc2, v, &[d1, d2], name, local, &all_opts[..2], false);
			});
		}
		// pairs of byte edits in the file header + payload table
		for (abs, name) in bases(false) {
			let doc = record(&abs).doc;
			let bytes = doc.assemble();
			let table_end = 15 + 2 + 3 * doc.table.len();
			let mut jobs = vec![];
			for o1 in 0..table_end {
				for o2 in o1 + 1..table_end {
					jobs.push((o1, o2));
				}
			}
			let b = Arc::new(bytes);
			par_each(jobs.into_iter(), move |(o1, o2), local| {
				let vals = |x: u8| [0u8, 0xFF, x ^ 1, x ^ 0x80, x.wrapping_add(1)];
				for v1 in vals(b[o1]) {
					for v2 in vals(b[o2]) {
						let mut m = (*b).clone();
						m[o1] = v1;
						m[o2] = v2;
						let m = Arc::new(m);
						for (skip, hash) in [(false, false), (true, true)] {
							let p = P { skip, hash, class: "byte-pair", ..Default::default() };
							eval_case("robust", o_robust, &m, &p, || format!("{} bytes {:#x}={:#04x} {:#x}={:#04x}", name, o1, v1, o2, v2), local);
						}
					}
				}
			});
		}
		// all 3-byte suffixes that start with a known event code / marker, after every parser state
		for (abs, name) in bases(true) {
			let doc = record(&abs).doc;
			let full = Arc::new(doc.assemble());
			let mut states: Vec<usize> = vec![15];
			states.extend(doc.boundaries());
			let mut jobs = vec![];
			for at in states {
				for a in [0x10u8, 0x35, 0x36, 0x37, 0x38, 0x39, 0x3A, 0x3B, 0x3C, 0x3D, 0x55, 0x7b, 0x7d] {
					for b in 0..=255u8 {
						jobs.push((at, a, b));
					}
				}
			}
			let f2 = full.clone();
			par_each(jobs.into_iter(), move |(at, a, b), local| {
				for c in 0..=255u8 {
					let mut m = f2[..at].to_vec();
					m.extend_from_slice(&[a, b, c]);
					let m = Arc::new(m);
					let p = P { class: "suffix3", ..Default::default() };
					eval_case("robust", o_robust, &m, &p, || format!("{} prefix {} + [{:#04x} {:#04x} {:#04x}]", name, at, a, b, c), local);
				}
			});
		}
	}
	// fault injection: every read call of a clean run x error kind
	let mut fault_bases: Vec<(Arc<Vec<u8>>, &'static str)> = vec![];
	for (abs, name) in bases(cx.quick()) {
		let rec = record(&abs);
		fault_bases.push((Arc::new(rec.doc.assemble()), name));
		// the same replay as a recorder leaves it while the game is still running: declared raw length 0
		let mut d = rec.doc.clone();
		d.raw_len_override = Some(0);
		fault_bases.push((Arc::new(d.assemble()), "in-progress (raw length 0)"));
	}
	for (bytes, name) in fault_bases {
		let mut jobs = vec![];
		for (skip, hash) in all_opts {
			let mut r = EnvReader::new(&bytes, Sched::Full);
			let _ = read_slp_from(&mut r, skip, hash);
			let calls = r.calls;
			for i in 0..calls + 1 {
				for k in 0..5i64 {
					let mut p = P { skip, hash, class: "fault", ..Default::default() };
					set_sched(&mut p, &Sched::FailAt(i, err_kind(k)));
					jobs.push(p);
				}
			}
		}
		cx.add_note_count("fault_cases", jobs.len() as u64);
		let b2 = bytes.clone();
		par_each(jobs.into_iter(), move |p, local| {
			eval_case("fault", o_fault, &b2, &p, || format!("{} fail read call #{} with kind {}", name, p.n[2], p.n[3]), local);
		});
	}
	// deep metadata in subprocesses (a stack overflow kills the process)
	let exe = std::env::current_exe().unwrap();
	let mut local = Local::default();
	for depth in [1usize, 16, 256, 4096, 65_536, 1_000_000] {
		for closed in [true, false] {
			let mut p = P { class: "deep-metadata", ..Default::default() };
			p.n[0] = depth as i64;
			p.n[1] = closed as i64;
			let art = json!({"property": "C06", "oracle": "deepmeta", "tier": "quick", "label": format!("metadata nested {} deep, closed={}", depth, closed), "params": p.to_json(), "input_hex": ""});
			let path = format!("{}/replays/C06/deepmeta_{}_{}.json", verif_home(), depth, closed as u8);
			let _ = std::fs::create_dir_all(format!("{}/replays/C06", verif_home()));
			std::fs::write(&path, serde_json::to_string(&art).unwrap()).unwrap();
			let o = std::process::Command::new(&exe).arg("replay").arg(&path).arg("--quiet").output().unwrap();
			local.evaluations += 1;
			local.transitions += 1;
			local.nontrivial += 1;
			local.inputs.insert(case_hash(&[], &p));
			let so = String::from_utf8_lossy(&o.stdout).to_string();
			let code = o.status.code();
			let ok = code == Some(0) && so.contains("REPLAY-OK");
			local.outcomes.insert(fnv_mix(code.unwrap_or(-1) as u64, 77));
			if !ok {
				let symptom = match code {
					Some(1) => so.lines().find_map(|l| l.strip_prefix("REPLAY-KEY ")).map(|k| k.rsplit('|').next().unwrap_or("").to_string()).unwrap_or_else(|| "violation".into()),
					Some(c) => format!("exit-{}", c),
					None => "aborted-by-signal(stack overflow)".to_string(),
				};
				let v = Viol { key: format!("C06|deepmeta|deep-metadata|{}", symptom), msg: format!("metadata nested {} deep (closed={}): the reading process {}", depth, closed, if code.is_none() { "was killed by a signal (stack overflow abort)".to_string() } else { format!("reported {}", so.trim()) }) };
				cx.stats.viol_count.fetch_add(1, std::sync::atomic::Ordering::Relaxed);
				let mut art2 = art.clone();
				art2["key"] = json!(v.key);
				art2["message"] = json!(v.msg);
				cx.stats.viols.lock().unwrap().push((v, art2));
			}
		}
	}
	local.merge();
	finish(cx);
}


/// Writes replay artefacts for the two Message Splitter assertions (fixed finding D7b) into `dir`.
pub fn write_splitter_artefacts(dir: &str) {
	let (abs, name) = bases(true).into_iter().find(|(_, n)| *n == "v3.16").unwrap();
	let v = abs.v2();
	let doc = record(&abs).doc;
	for (dev, file) in [(Dev::SplitLive(0, 513), "D7b_splitter_block_size_over_512_assert"), (Dev::SplitDeclared(515), "D7b_splitter_payload_not_516_assert")] {
		let bytes = apply(&doc, &dev, v).unwrap();
		let p = P { class: "splitter", ..Default::default() };
		let art = json!({"property": "C06", "oracle": "robust", "tier": "quick", "label": format!("{} {:?}", name, dev), "params": p.to_json(), "input_hex": hex(&bytes), "key": "C06|robust|splitter|panic", "message": "Message Splitter assertion (fixed by 263616e)"});
		std::fs::write(format!("{}/{}.json", dir, file), serde_json::to_string_pretty(&art).unwrap()).unwrap();
	}
}
