//! C09: writers refuse games newer than the supported version instead of losing data.

use std::sync::{Arc, OnceLock};

use serde_json::json;

use peppi::frame::{immutable as im, mutable as mu};
use peppi::game::immutable::Game;
use peppi::game::port_occupancy;
use peppi::io::slippi::Version;

use crate::ops::*;
use crate::rec::*;
use crate::util::*;

pub const ORACLES: &[(&str, Oracle)] = &[("write_version", o_write_version)];

static BASE: OnceLock<Game> = OnceLock::new();

fn base() -> &'static Game {
	BASE.get_or_init(|| {
		let mut a = base_replay((3, 16), vec![pc(0, false), PortCfg { port: 2, ics: true, ptype: 1 }], 0);
		a.ends = 0;
		let bytes = record(&a).doc.assemble();
		read_slp(&bytes, false, false).unwrap_or_else(|f| crate::common::machinery(&format!("C09 base: {}", f.describe())))
	})
}

/// a zero-frame game stamped with the version triple, column shapes built for that version
fn game_for(v: (u8, u8, u8)) -> Game {
	let b = base();
	let mut start = b.start.clone();
	start.slippi.version = Version(v.0, v.1, v.2);
	start.bytes.0[0] = v.0;
	start.bytes.0[1] = v.1;
	start.bytes.0[2] = v.2;
	let ports = port_occupancy(&start);
	let frames: im::Frame = mu::Frame::with_capacity(0, start.slippi.version, &ports).into();
	Game { start, end: None, frames, metadata: b.metadata.clone(), gecko_codes: None, hash: None, quirks: None }
}

/// a game WITH frames (one frame, two characters) stamped with the version: read from a replay
/// recorded for that version (for versions above 3.16: the 3.16 layout with the version bytes changed)
fn game_with_frames(v: (u8, u8, u8)) -> Option<Game> {
	if v.0 == 0 && v.1 == 0 {
		return None;
	}
	let lay = if (v.0, v.1) > (3, 16) { (3, 16) } else { (v.0, v.1) };
	let mut a = base_replay(lay, vec![pc(0, false), PortCfg { port: 2, ics: true, ptype: 1 }], 1);
	a.metadata = None;
	let mut rec = record(&a);
	rec.doc.events[0].payload[0] = v.0;
	rec.doc.events[0].payload[1] = v.1;
	rec.doc.events[0].payload[2] = v.2;
	match read_slp(&rec.doc.assemble(), false, false) {
		Ok(g) => Some(g),
		Err(f) => crate::common::machinery(&format!("C09: the one-frame replay of version {:?} does not read: {}", v, f.describe())),
	}
}

fn check(v: (u8, u8, u8), which: i64) -> Result<(), (String, String)> {
	let over = v > (3, 16, 0);
	let g = if which == 2 || which == 3 {
		match game_with_frames(v) {
			Some(g) => g,
			None => return Ok(()),
		}
	} else {
		game_for(v)
	};
	// which 4/5: the public version field says v, the raw Game Start block still says 3.16.0 (a caller
	// changed the field): the field is the game's version, so the writers must go by it
	let mut g = g;
	if which >= 4 {
		g.start.bytes.0[0] = 3;
		g.start.bytes.0[1] = 16;
		g.start.bytes.0[2] = 0;
	}
	let which = which % 2;
	let res = if which == 0 { write_slp(&g).map(|_| ()) } else { write_slpp(g, 0).map(|_| ()) };
	let name = if which == 0 { "slippi::write" } else { "peppi::write" };
	match (over, res) {
		(true, Err(Fail::Err(_))) => Ok(()),
		(true, Ok(())) => Err(("accepted-newer".into(), format!("{} accepted a game of version {}.{}.{} > 3.16.0", name, v.0, v.1, v.2))),
		(false, Ok(())) => Ok(()),
		(false, Err(Fail::Err(e))) => Err(("refused-supported".into(), format!("{} refused a game of version {}.{}.{} <= 3.16.0: {}", name, v.0, v.1, v.2, e))),
		(_, Err(Fail::Panic(pn))) => Err((pn.key(), format!("{} panicked for version {}.{}.{}: {}", name, v.0, v.1, v.2, pn.msg))),
	}
}

/// p.n = [writer (0 slp, 1 slpp), major, minor, patch]
pub fn o_write_version(_input: &[u8], p: &P) -> Out {
	let mut out = Out { transitions: 1, nontrivial: true, ..Default::default() };
	if let Err((k, m)) = check((p.n[1] as u8, p.n[2] as u8, p.n[3] as u8), p.n[0]) {
		out.viol = crate::common::viol("write_version", p, &k, m);
	}
	out
}

pub fn run() {
	let cx = ctx();
	cx.note("rule", json!("ALL 2^24 version triples x slippi::write, and x peppi::write on the refusing side (16.5 M triples) plus every accepted (major,minor) with patch in {0,1,255} (thorough: all 200,705 accepted triples), on a zero-frame game stamped with the triple (version field and raw block; column shapes built for that version), and - for patch in {0,1,255} of every (major,minor) - on a one-frame game read from a replay of that version: Err iff (major,minor,patch) > (3,16,0). Distinct by construction of the enumeration"));
	cx.note("exhaustive", json!(true));
	cx.note("assumptions", json!(["the guard is assumed to depend on the version only, not on the rest of the game (it is invoked first in both writers); the game used is the zero-frame one"]));
	let quick = cx.quick();
	par_each(0..65536u32, move |mm, local| {
		let (ma, mi) = ((mm >> 8) as u8, mm as u8);
		// one full game per (major, minor); the patch is stamped in place for the borrowing writer
		let mut full = game_for((ma, mi, 0));
		// a cheap game (no players) for the consuming writer on the refusing side, where the guard
		// returns before looking at anything else; any other outcome is re-checked with the full game
		let cheap_start = {
			let mut s = full.start.clone();
			s.players.clear();
			s
		};
		for pa in 0..=255u8 {
			let v = (ma, mi, pa);
			let over = v > (3, 16, 0);
			full.start.slippi.version = Version(ma, mi, pa);
			full.start.bytes.0[2] = pa;
			// slippi::write
			let ok = match (over, write_slp(&full)) {
				(true, Err(Fail::Err(_))) | (false, Ok(_)) => true,
				_ => false,
			};
			let mut bad: Vec<(i64, String)> = vec![];
			if !ok {
				bad.push((0, "slippi::write accepted an unsupported version or refused a supported one".to_string()));
			}
			local.evaluations += 1;
			// peppi::write
			if over {
				let mut st = cheap_start.clone();
				st.slippi.version = Version(ma, mi, pa);
				st.bytes.0[2] = pa;
				let frames: im::Frame = mu::Frame::with_capacity(0, st.slippi.version, &[]).into();
				let g = Game { start: st, end: None, frames, metadata: None, gecko_codes: None, hash: None, quirks: None };
				local.evaluations += 1;
				if !matches!(write_slpp(g, 0), Err(Fail::Err(_))) {
					bad.push((1, "the unsupported version was not refused".to_string()));
				}
			} else if !quick || matches!(pa, 0 | 1 | 255) {
				local.evaluations += 1;
				if let Err((_, m)) = check(v, 1) {
					bad.push((1, m));
				}
			}
			// field above the maximum, raw block not: must still be refused (only asked on the refusing side;
			// the converse - field supported, raw block newer - is an inconsistent game the statement does not cover)
			if over && matches!(pa, 0 | 1 | 255) {
				for w in [4i64, 5] {
					local.evaluations += 1;
					if let Err((_, m)) = check(v, w) {
						bad.push((w, m));
					}
				}
			}
			// the same with a game that HAS frames, for the boundary patches of every (major, minor)
			if matches!(pa, 0 | 1 | 255) {
				for w in [2i64, 3] {
					local.evaluations += 1;
					if let Err((_, m)) = check(v, w) {
						bad.push((w, m));
					}
				}
			}
			for (w, first) in bad {
				let mut p = P { class: ["slp", "slpp", "slp-with-frames", "slpp-with-frames", "slp-field-vs-raw", "slpp-field-vs-raw"][w as usize], ..Default::default() };
				p.n = [w, ma as i64, mi as i64, pa as i64, 0, 0];
				let empty = Arc::new(vec![]);
				local.evaluations -= 1;
				eval_flagged("write_version", o_write_version, &empty, &p, || format!("writer {} version {}.{}.{}", w, ma, mi, pa), first, local);
			}
			local.outcomes.insert(over as u64);
			local.states.insert(fnv_mix(7, over as u64));
		}
		local.transitions = local.evaluations;
		local.bulk = local.evaluations;
		local.nontrivial = local.evaluations;
	});
	cx.sample(json!({"writer": "slippi::write", "version": "3.16.1", "expected": "Err"}));
	cx.sample(json!({"writer": "peppi::write", "version": "3.16.0", "expected": "Ok"}));
	cx.sample(json!({"writer": "peppi::write", "version": "2.255.255", "expected": "Ok"}));
	finish(cx);
}
