//! Name-addressable views of peppi's frame data: one table of leaf accessors per event
//! kind, for the immutable columns, the mutable columns, the transposed row and (by field
//! *name*) the Arrow struct array.

#![allow(dead_code)]

use arrow2::array::{Array, ListArray, MutableArray, MutablePrimitiveArray, PrimitiveArray, StructArray};
use arrow2::bitmap::{Bitmap, MutableBitmap};
use arrow2::datatypes::DataType;

use peppi::frame::{immutable as im, mutable as mu, transpose as tr};

use crate::spec::{Bits, Kind, Ty};

// ------------------------------------------------------------------ column handles

#[derive(Clone, Copy)]
pub enum Col<'a> {
	U8(&'a PrimitiveArray<u8>),
	I8(&'a PrimitiveArray<i8>),
	U16(&'a PrimitiveArray<u16>),
	U32(&'a PrimitiveArray<u32>),
	I32(&'a PrimitiveArray<i32>),
	F32(&'a PrimitiveArray<f32>),
}

macro_rules! col_from {
	($t:ty, $v:ident) => {
		impl<'a> From<&'a PrimitiveArray<$t>> for Col<'a> {
			fn from(a: &'a PrimitiveArray<$t>) -> Self {
				Col::$v(a)
			}
		}
	};
}
col_from!(u8, U8);
col_from!(i8, I8);
col_from!(u16, U16);
col_from!(u32, U32);
col_from!(i32, I32);
col_from!(f32, F32);

impl<'a> Col<'a> {
	pub fn ty(&self) -> Ty {
		match self {
			Col::U8(_) => Ty::U8,
			Col::I8(_) => Ty::I8,
			Col::U16(_) => Ty::U16,
			Col::U32(_) => Ty::U32,
			Col::I32(_) => Ty::I32,
			Col::F32(_) => Ty::F32,
		}
	}
	pub fn len(&self) -> usize {
		match self {
			Col::U8(a) => a.len(),
			Col::I8(a) => a.len(),
			Col::U16(a) => a.len(),
			Col::U32(a) => a.len(),
			Col::I32(a) => a.len(),
			Col::F32(a) => a.len(),
		}
	}
	pub fn bits(&self, i: usize) -> Bits {
		match self {
			Col::U8(a) => a.values()[i] as u32,
			Col::I8(a) => a.values()[i] as u8 as u32,
			Col::U16(a) => a.values()[i] as u32,
			Col::U32(a) => a.values()[i],
			Col::I32(a) => a.values()[i] as u32,
			Col::F32(a) => a.values()[i].to_bits(),
		}
	}
	pub fn validity(&self) -> Option<&'a Bitmap> {
		match self {
			Col::U8(a) => a.validity(),
			Col::I8(a) => a.validity(),
			Col::U16(a) => a.validity(),
			Col::U32(a) => a.validity(),
			Col::I32(a) => a.validity(),
			Col::F32(a) => a.validity(),
		}
	}
	pub fn is_valid(&self, i: usize) -> bool {
		self.validity().map_or(true, |v| v.get_bit(i))
	}
}

#[derive(Clone, Copy)]
pub enum MCol<'a> {
	U8(&'a MutablePrimitiveArray<u8>),
	I8(&'a MutablePrimitiveArray<i8>),
	U16(&'a MutablePrimitiveArray<u16>),
	U32(&'a MutablePrimitiveArray<u32>),
	I32(&'a MutablePrimitiveArray<i32>),
	F32(&'a MutablePrimitiveArray<f32>),
}

macro_rules! mcol_from {
	($t:ty, $v:ident) => {
		impl<'a> From<&'a MutablePrimitiveArray<$t>> for MCol<'a> {
			fn from(a: &'a MutablePrimitiveArray<$t>) -> Self {
				MCol::$v(a)
			}
		}
	};
}
mcol_from!(u8, U8);
mcol_from!(i8, I8);
mcol_from!(u16, U16);
mcol_from!(u32, U32);
mcol_from!(i32, I32);
mcol_from!(f32, F32);

impl<'a> MCol<'a> {
	pub fn ty(&self) -> Ty {
		match self {
			MCol::U8(_) => Ty::U8,
			MCol::I8(_) => Ty::I8,
			MCol::U16(_) => Ty::U16,
			MCol::U32(_) => Ty::U32,
			MCol::I32(_) => Ty::I32,
			MCol::F32(_) => Ty::F32,
		}
	}
	pub fn len(&self) -> usize {
		match self {
			MCol::U8(a) => a.values().len(),
			MCol::I8(a) => a.values().len(),
			MCol::U16(a) => a.values().len(),
			MCol::U32(a) => a.values().len(),
			MCol::I32(a) => a.values().len(),
			MCol::F32(a) => a.values().len(),
		}
	}
	pub fn bits(&self, i: usize) -> Bits {
		match self {
			MCol::U8(a) => a.values()[i] as u32,
			MCol::I8(a) => a.values()[i] as u8 as u32,
			MCol::U16(a) => a.values()[i] as u32,
			MCol::U32(a) => a.values()[i],
			MCol::I32(a) => a.values()[i] as u32,
			MCol::F32(a) => a.values()[i].to_bits(),
		}
	}
	pub fn is_valid(&self, i: usize) -> bool {
		let v: Option<&MutableBitmap> = match self {
			MCol::U8(a) => a.validity(),
			MCol::I8(a) => a.validity(),
			MCol::U16(a) => a.validity(),
			MCol::U32(a) => a.validity(),
			MCol::I32(a) => a.validity(),
			MCol::F32(a) => a.validity(),
		};
		v.map_or(true, |v| v.get(i))
	}
}

pub trait ToBits: Copy {
	fn ty() -> Ty;
	fn to_bits_(self) -> Bits;
}
macro_rules! tobits {
	($t:ty, $v:ident, $e:expr) => {
		impl ToBits for $t {
			fn ty() -> Ty {
				Ty::$v
			}
			fn to_bits_(self) -> Bits {
				let f: fn($t) -> Bits = $e;
				f(self)
			}
		}
	};
}
tobits!(u8, U8, |x| x as u32);
tobits!(i8, I8, |x| x as u8 as u32);
tobits!(u16, U16, |x| x as u32);
tobits!(u32, U32, |x| x);
tobits!(i32, I32, |x| x as u32);
tobits!(f32, F32, |x| x.to_bits());

fn tb<T: ToBits>(x: T) -> (Ty, Bits) {
	(T::ty(), x.to_bits_())
}

// ------------------------------------------------------------------ leaf tables

pub struct Leaf<I: 'static, M: 'static, T: 'static> {
	pub path: &'static str,
	pub imm: for<'a> fn(&'a I) -> Option<Col<'a>>,
	pub mt: for<'a> fn(&'a M) -> Option<MCol<'a>>,
	pub tr: fn(&T) -> Option<(Ty, Bits)>,
}

macro_rules! leaf {
	($path:literal, req $($f:tt).+) => {
		Leaf {
			path: $path,
			imm: |x| Some(Col::from(&x.$($f).+)),
			mt: |x| Some(MCol::from(&x.$($f).+)),
			tr: |x| Some(tb(x.$($f).+)),
		}
	};
	($path:literal, opt $f:tt) => {
		Leaf {
			path: $path,
			imm: |x| x.$f.as_ref().map(Col::from),
			mt: |x| x.$f.as_ref().map(MCol::from),
			tr: |x| x.$f.map(tb),
		}
	};
	($path:literal, optn $f:tt . $g:tt) => {
		Leaf {
			path: $path,
			imm: |x| x.$f.as_ref().map(|s| Col::from(&s.$g)),
			mt: |x| x.$f.as_ref().map(|s| MCol::from(&s.$g)),
			tr: |x| x.$f.map(|s| tb(s.$g)),
		}
	};
}

pub type PreLeaf = Leaf<im::Pre, mu::Pre, tr::Pre>;
pub type PostLeaf = Leaf<im::Post, mu::Post, tr::Post>;
pub type StartLeaf = Leaf<im::Start, mu::Start, tr::Start>;
pub type EndLeaf = Leaf<im::End, mu::End, tr::End>;
pub type ItemLeaf = Leaf<im::Item, mu::Item, tr::Item>;

pub static PRE: &[PreLeaf] = &[
	leaf!("random_seed", req random_seed),
	leaf!("state", req state),
	leaf!("position.x", req position.x),
	leaf!("position.y", req position.y),
	leaf!("direction", req direction),
	leaf!("joystick.x", req joystick.x),
	leaf!("joystick.y", req joystick.y),
	leaf!("cstick.x", req cstick.x),
	leaf!("cstick.y", req cstick.y),
	leaf!("triggers", req triggers),
	leaf!("buttons", req buttons),
	leaf!("buttons_physical", req buttons_physical),
	leaf!("triggers_physical.l", req triggers_physical.l),
	leaf!("triggers_physical.r", req triggers_physical.r),
	leaf!("raw_analog_x", opt raw_analog_x),
	leaf!("percent", opt percent),
	leaf!("raw_analog_y", opt raw_analog_y),
];

pub static POST: &[PostLeaf] = &[
	leaf!("character", req character),
	leaf!("state", req state),
	leaf!("position.x", req position.x),
	leaf!("position.y", req position.y),
	leaf!("direction", req direction),
	leaf!("percent", req percent),
	leaf!("shield", req shield),
	leaf!("last_attack_landed", req last_attack_landed),
	leaf!("combo_count", req combo_count),
	leaf!("last_hit_by", req last_hit_by),
	leaf!("stocks", req stocks),
	leaf!("state_age", opt state_age),
	leaf!("state_flags.0", optn state_flags.0),
	leaf!("state_flags.1", optn state_flags.1),
	leaf!("state_flags.2", optn state_flags.2),
	leaf!("state_flags.3", optn state_flags.3),
	leaf!("state_flags.4", optn state_flags.4),
	leaf!("misc_as", opt misc_as),
	leaf!("airborne", opt airborne),
	leaf!("ground", opt ground),
	leaf!("jumps", opt jumps),
	leaf!("l_cancel", opt l_cancel),
	leaf!("hurtbox_state", opt hurtbox_state),
	leaf!("velocities.self_x_air", optn velocities.self_x_air),
	leaf!("velocities.self_y", optn velocities.self_y),
	leaf!("velocities.knockback_x", optn velocities.knockback_x),
	leaf!("velocities.knockback_y", optn velocities.knockback_y),
	leaf!("velocities.self_x_ground", optn velocities.self_x_ground),
	leaf!("hitlag", opt hitlag),
	leaf!("animation_index", opt animation_index),
	leaf!("last_hit_by_instance", opt last_hit_by_instance),
	leaf!("instance_id", opt instance_id),
];

pub static START: &[StartLeaf] = &[
	leaf!("random_seed", req random_seed),
	leaf!("scene_frame_counter", opt scene_frame_counter),
];

pub static END: &[EndLeaf] = &[leaf!("latest_finalized_frame", opt latest_finalized_frame)];

pub static ITEM: &[ItemLeaf] = &[
	leaf!("type", req r#type),
	leaf!("state", req state),
	leaf!("direction", req direction),
	leaf!("velocity.x", req velocity.x),
	leaf!("velocity.y", req velocity.y),
	leaf!("position.x", req position.x),
	leaf!("position.y", req position.y),
	leaf!("damage", req damage),
	leaf!("timer", req timer),
	leaf!("id", req id),
	leaf!("misc.0", optn misc.0),
	leaf!("misc.1", optn misc.1),
	leaf!("misc.2", optn misc.2),
	leaf!("misc.3", optn misc.3),
	leaf!("owner", opt owner),
	leaf!("instance_id", opt instance_id),
];

// ------------------------------------------------------------------ struct-level validity bitmaps

pub fn pre_validities(p: &im::Pre) -> Vec<(&'static str, Option<&Bitmap>)> {
	vec![
		("pre", p.validity.as_ref()),
		("pre.position", p.position.validity.as_ref()),
		("pre.joystick", p.joystick.validity.as_ref()),
		("pre.cstick", p.cstick.validity.as_ref()),
		("pre.triggers_physical", p.triggers_physical.validity.as_ref()),
	]
}

pub fn post_validities(p: &im::Post) -> Vec<(&'static str, Option<&Bitmap>)> {
	let mut v = vec![
		("post", p.validity.as_ref()),
		("post.position", p.position.validity.as_ref()),
	];
	if let Some(s) = &p.velocities {
		v.push(("post.velocities", s.validity.as_ref()));
	}
	v
}

// ------------------------------------------------------------------ Arrow, by name

/// Look up a child of a struct array by field name.
pub fn arrow_child<'a>(s: &'a StructArray, name: &str) -> Option<&'a dyn Array> {
	let fields = match s.data_type() {
		DataType::Struct(f) => f,
		_ => return None,
	};
	let mut found = None;
	for (i, f) in fields.iter().enumerate() {
		if f.name == name {
			if found.is_some() {
				return None; // duplicate name
			}
			found = Some(i);
		}
	}
	found.map(|i| s.values()[i].as_ref())
}

pub fn arrow_struct<'a>(a: &'a dyn Array) -> Option<&'a StructArray> {
	a.as_any().downcast_ref::<StructArray>()
}

/// Walk a dotted path of struct fields by name and return the primitive leaf as a Col.
pub fn arrow_leaf<'a>(s: &'a StructArray, path: &str) -> Result<Col<'a>, String> {
	let mut cur: &StructArray = s;
	let parts: Vec<&str> = path.split('.').collect();
	for (n, part) in parts.iter().enumerate() {
		let child = arrow_child(cur, part)
			.ok_or_else(|| format!("arrow: no (unique) field '{}' on path '{}'", part, path))?;
		if n + 1 == parts.len() {
			return arrow_prim(child).ok_or_else(|| {
				format!("arrow: leaf '{}' has non-primitive type {:?}", path, child.data_type())
			});
		}
		cur = arrow_struct(child)
			.ok_or_else(|| format!("arrow: '{}' on path '{}' is not a struct", part, path))?;
	}
	Err("empty path".into())
}

pub fn arrow_prim<'a>(a: &'a dyn Array) -> Option<Col<'a>> {
	let any = a.as_any();
	if let Some(x) = any.downcast_ref::<PrimitiveArray<u8>>() {
		return Some(Col::U8(x));
	}
	if let Some(x) = any.downcast_ref::<PrimitiveArray<i8>>() {
		return Some(Col::I8(x));
	}
	if let Some(x) = any.downcast_ref::<PrimitiveArray<u16>>() {
		return Some(Col::U16(x));
	}
	if let Some(x) = any.downcast_ref::<PrimitiveArray<u32>>() {
		return Some(Col::U32(x));
	}
	if let Some(x) = any.downcast_ref::<PrimitiveArray<i32>>() {
		return Some(Col::I32(x));
	}
	if let Some(x) = any.downcast_ref::<PrimitiveArray<f32>>() {
		return Some(Col::F32(x));
	}
	None
}

pub fn arrow_list<'a>(a: &'a dyn Array) -> Option<&'a ListArray<i32>> {
	a.as_any().downcast_ref::<ListArray<i32>>()
}

pub fn kind_paths(k: Kind) -> Vec<&'static str> {
	match k {
		Kind::Pre => PRE.iter().map(|l| l.path).collect(),
		Kind::Post => POST.iter().map(|l| l.path).collect(),
		Kind::Start => START.iter().map(|l| l.path).collect(),
		Kind::End => END.iter().map(|l| l.path).collect(),
		Kind::Item => ITEM.iter().map(|l| l.path).collect(),
	}
}

pub fn bitmap_is_set(v: Option<&Bitmap>, i: usize) -> bool {
	v.map_or(true, |v| v.get_bit(i))
}
