//! Thin wrappers around peppi's public entry points (every call is wrapped in catch_unwind)
//! and field-by-field comparison of games.

#![allow(dead_code)]

use std::io::Cursor;

use peppi::frame::immutable as im;
use peppi::game::immutable::Game;
use peppi::io::{peppi as ppi, slippi};

use crate::model::{ColLike, FrameLike};
use crate::spec::Kind;
use crate::util::{catch, Panicked};
use crate::view;

#[derive(Debug, Clone)]
pub enum Fail {
	Err(String),
	Panic(Panicked),
}

impl Fail {
	pub fn describe(&self) -> String {
		match self {
			Fail::Err(e) => format!("Err({})", e),
			Fail::Panic(p) => format!("PANIC: {}", p.msg),
		}
	}
	pub fn key(&self) -> String {
		match self {
			Fail::Err(e) => format!("err[{}]", crate::util::sanitize(e)),
			Fail::Panic(p) => p.key(),
		}
	}
	pub fn is_panic(&self) -> bool {
		matches!(self, Fail::Panic(_))
	}
}

pub fn slp_opts(skip: bool, hash: bool) -> slippi::de::Opts {
	slippi::de::Opts { skip_frames: skip, compute_hash: hash, debug: None }
}

/// How the bytes are served is an environment choice that must not matter; it is rotated over the
/// inputs (deterministically, by content hash) so that every check also sees fragmented reads and a
/// stream that does not start at position 0: 2/8 plain cursor, 1-byte, 7-byte and 4096-byte chunks,
/// a reader positioned after 4099 bytes of unrelated data, and (2/8) a stream one of whose first
/// 8 / 64 read calls is interrupted.
pub fn read_slp(b: &[u8], skip: bool, hash: bool) -> Result<Game, Fail> {
	use crate::env::{EnvReader, PrefixedReader, Sched};
	let opts = slp_opts(skip, hash);
	let _guard = crate::util::prepass("prepass_read_slp", b, &crate::util::P { skip, hash, ..Default::default() });
	let plain = std::env::var("VERIF_PLAIN_READS").is_ok();
	let hv = crate::util::xx(b);
	let variant = if plain { 0 } else { hv % 8 };
	// "no options" is the same request as "all options off": half of those reads pass None
	let o: Option<&slippi::de::Opts> = if !skip && !hash && !plain && (hv >> 30) & 1 == 1 { None } else { Some(&opts) };
	if !plain {
		history_prelude(b, hv, skip, hash);
	}
	let r = match variant {
		2 => catch(|| slippi::read(EnvReader::new(b, Sched::Chunk(1)), o)),
		3 => catch(|| slippi::read(EnvReader::new(b, Sched::Chunk(7)), o)),
		4 => catch(|| slippi::read(EnvReader::new(b, Sched::Chunk(4096)), o)),
		5 => catch(|| slippi::read(PrefixedReader::new(b, 4099), o)),
		// one read call is interrupted (EINTR) and has to be repeated by the caller
		6 | 7 => {
			let call = ((hv >> 8) % if variant == 6 { 8 } else { 64 }) as usize;
			let r = catch(|| slippi::read(EnvReader::new(b, Sched::FailAt(call, std::io::ErrorKind::Interrupted)), o));
			match r {
				// giving up on an interrupted call is an error, not a wrong answer: ask again without it
				// (whatever the error says - an implementation may wrap it)
				Ok(Err(_)) => catch(|| slippi::read(Cursor::new(b), o)),
				r => r,
			}
		}
		_ => catch(|| slippi::read(Cursor::new(b), o)),
	};
	match r {
		Ok(Ok(g)) => Ok(g),
		Ok(Err(e)) => Err(Fail::Err(e.to_string())),
		Err(p) => Err(Fail::Panic(p)),
	}
}

/// Well-formed replays of unrelated shape (v0.1, v2.0, v3.16 with Ice Climbers and items, and a long
/// one with Gecko codes), read before some of the reads below.
fn prelude_games() -> &'static Vec<Vec<u8>> {
	static G: std::sync::OnceLock<Vec<Vec<u8>>> = std::sync::OnceLock::new();
	G.get_or_init(|| {
		let mut v: Vec<Vec<u8>> = [(0u8, 1u8), (3, 16), (2, 0)]
			.iter()
			.map(|v| crate::rec::record(&crate::gen::per_version_replay(*v, crate::rec::Fill::A)).doc.assemble())
			.collect();
		// and one that is much longer than most inputs (scratch space that only ever grows is then larger
		// than the next input needs)
		let mut big = crate::rec::base_replay((3, 16), vec![crate::rec::pc(0, false), crate::rec::pc(3, true)], 150);
		big.gecko = crate::rec::Gecko::Live { live: 5000, nonzero_pad: false };
		v.push(crate::rec::record(&big).doc.assemble());
		v
	})
}

/// What the calling thread did before a read must not matter either. For 3 in 8 inputs (by content
/// hash) the read is preceded, on the same thread, by another call into the library: a read of the
/// first two thirds of the same bytes (which fails part-way), or a complete read of an unrelated
/// small replay, with the same options. The outcome of the prelude itself is not judged here.
fn history_prelude(b: &[u8], hv: u64, skip: bool, hash: bool) {
	let opts = slp_opts(skip, hash);
	match (hv >> 20) % 8 {
		0 => {
			let cut = &b[..b.len() * 2 / 3];
			let _ = catch(|| slippi::read(Cursor::new(cut), Some(&opts)).map(|_| ()));
		}
		k @ (1 | 2) => {
			let gs = prelude_games();
			let g = &gs[((hv >> 24) as usize + k as usize) % gs.len()];
			let _ = catch(|| slippi::read(Cursor::new(&g[..]), Some(&opts)).map(|_| ()));
		}
		_ => {}
	}
}

/// read with the `debug` option set (every event's payload is dumped into a scratch directory, removed
/// afterwards): the option must change nothing about the game returned
pub fn read_slp_debug(b: &[u8], skip: bool, hash: bool) -> Result<Game, Fail> {
	static N: std::sync::atomic::AtomicU64 = std::sync::atomic::AtomicU64::new(0);
	let dir = std::env::temp_dir().join(format!("verif-debug-{}-{}", std::process::id(), N.fetch_add(1, std::sync::atomic::Ordering::Relaxed)));
	let opts = slippi::de::Opts { skip_frames: skip, compute_hash: hash, debug: Some(slippi::de::Debug { dir: dir.clone() }) };
	let r = catch(|| slippi::read(Cursor::new(b), Some(&opts)));
	let _ = std::fs::remove_dir_all(&dir);
	match r {
		Ok(Ok(g)) => Ok(g),
		Ok(Err(e)) => Err(Fail::Err(e.to_string())),
		Err(p) => Err(Fail::Panic(p)),
	}
}

/// read with `None` options (the default path)
pub fn read_slp_default(b: &[u8]) -> Result<Game, Fail> {
	match catch(|| slippi::read(Cursor::new(b), None)) {
		Ok(Ok(g)) => Ok(g),
		Ok(Err(e)) => Err(Fail::Err(e.to_string())),
		Err(p) => Err(Fail::Panic(p)),
	}
}

pub fn read_slp_from<R: std::io::Read + std::io::Seek>(r: R, skip: bool, hash: bool) -> Result<Game, Fail> {
	let opts = slp_opts(skip, hash);
	// with every option off, the call is made without options (the same request; `read_slp` makes both)
	let o = if !skip && !hash { None } else { Some(&opts) };
	match catch(|| slippi::read(r, o)) {
		Ok(Ok(g)) => Ok(g),
		Ok(Err(e)) => Err(Fail::Err(e.to_string())),
		Err(p) => Err(Fail::Panic(p)),
	}
}

/// A sink that accepts at most `max` bytes per `write` call (what a pipe or socket does).
pub struct ChunkWriter {
	pub out: Vec<u8>,
	pub max: usize,
}

impl std::io::Write for ChunkWriter {
	fn write(&mut self, buf: &[u8]) -> std::io::Result<usize> {
		let n = buf.len().min(self.max);
		self.out.extend_from_slice(&buf[..n]);
		Ok(n)
	}
	fn flush(&mut self) -> std::io::Result<()> {
		Ok(())
	}
}

fn write_variant(g: &Game) -> u64 {
	if std::env::var("VERIF_PLAIN_READS").is_ok() {
		return 0;
	}
	(crate::util::xx(&g.start.bytes.0) ^ g.frames.len() as u64 ^ g.metadata.as_ref().map_or(7, |m| m.len() as u64)) % 4
}

/// The sink, like the source, is rotated: 2/4 a plain Vec, else a writer taking 1 or 5 bytes per call.
pub fn write_slp(g: &Game) -> Result<Vec<u8>, Fail> {
	let variant = write_variant(g);
	match catch(|| {
		if variant >= 2 {
			let mut w = ChunkWriter { out: Vec::new(), max: if variant == 2 { 1 } else { 5 } };
			slippi::write(&mut w, g).map(|_| w.out)
		} else {
			let mut out = Vec::new();
			slippi::write(&mut out, g).map(|_| out)
		}
	}) {
		Ok(Ok(v)) => Ok(v),
		Ok(Err(e)) => Err(Fail::Err(e.to_string())),
		Err(p) => Err(Fail::Panic(p)),
	}
}

pub fn comp_of(c: u8) -> Option<arrow2::io::ipc::write::Compression> {
	match c {
		1 => Some(arrow2::io::ipc::write::Compression::LZ4),
		2 => Some(arrow2::io::ipc::write::Compression::ZSTD),
		_ => None,
	}
}

pub fn write_slpp(g: Game, comp: u8) -> Result<Vec<u8>, Fail> {
	let opts = ppi::ser::Opts { compression: comp_of(comp) };
	let variant = write_variant(&g);
	match catch(move || {
		// no compression asked for: for half of those writes no options at all (whatever the default is,
		// everything said about an archive must hold for it)
		let o = if comp == 0 && variant & 1 == 1 { None } else { Some(&opts) };
		if variant == 3 {
			let mut w = ChunkWriter { out: Vec::new(), max: 509 };
			ppi::write(&mut w, g, o).map_err(|e| e.to_string())?;
			Ok(w.out)
		} else {
			let mut out = Vec::new();
			ppi::write(&mut out, g, o).map(|_| out).map_err(|e| e.to_string())
		}
	}) {
		Ok(Ok(v)) => Ok(v),
		Ok(Err(e)) => Err(Fail::Err(e)),
		Err(p) => Err(Fail::Panic(p)),
	}
}

pub fn write_slpp_default(g: Game) -> Result<Vec<u8>, Fail> {
	match catch(move || {
		let mut out = Vec::new();
		ppi::write(&mut out, g, None).map(|_| out).map_err(|e| e.to_string())
	}) {
		Ok(Ok(v)) => Ok(v),
		Ok(Err(e)) => Err(Fail::Err(e)),
		Err(p) => Err(Fail::Panic(p)),
	}
}

pub fn read_slpp(b: &[u8], skip: bool) -> Result<Game, Fail> {
	use crate::env::{EnvReader, Sched};
	let _guard = crate::util::prepass("prepass_read_slpp", b, &crate::util::P { skip, ..Default::default() });
	let opts = ppi::de::Opts { skip_frames: skip };
	slpp_prelude(b, skip);
	let plain = std::env::var("VERIF_PLAIN_READS").is_ok();
	let variant = if plain { 0 } else { crate::util::xx(b) % 5 };
	// "no options" is the same request as "all options off": half of those reads pass None
	let o: Option<&ppi::de::Opts> = if !skip && !plain && (crate::util::xx(b) >> 30) & 1 == 1 { None } else { Some(&opts) };
	let r = match variant {
		2 => catch(|| ppi::read(EnvReader::new(b, Sched::Chunk(3)), o)),
		3 => catch(|| ppi::read(EnvReader::new(b, Sched::Chunk(511)), o)),
		4 => catch(|| ppi::read(EnvReader::new(b, Sched::Chunk(1)), o)),
		_ => catch(|| ppi::read(Cursor::new(b), o)),
	};
	match r {
		Ok(Ok(g)) => Ok(g),
		Ok(Err(e)) => Err(Fail::Err(e.to_string())),
		Err(p) => Err(Fail::Panic(p)),
	}
}

/// What the thread did before must not matter (see `history_prelude`): one archive in four (by content
/// hash) is first read cut to two thirds, or to its first 1,100 bytes, on the same thread - a read that
/// gives up part-way - before the read that counts.
pub fn slpp_prelude(b: &[u8], skip: bool) {
	if std::env::var("VERIF_PLAIN_READS").is_ok() {
		return;
	}
	let opts = ppi::de::Opts { skip_frames: skip };
	let cut = match (crate::util::xx(b) >> 20) % 8 {
		0 => &b[..b.len() * 2 / 3],
		1 => &b[..b.len().min(1100)],
		_ => return,
	};
	let _ = catch(|| ppi::read(Cursor::new(cut), Some(&opts)).map(|_| ()));
}

pub fn read_slpp_from<R: std::io::Read>(r: R, skip: bool) -> Result<Game, Fail> {
	let opts = ppi::de::Opts { skip_frames: skip };
	match catch(|| ppi::read(r, Some(&opts))) {
		Ok(Ok(g)) => Ok(g),
		Ok(Err(e)) => Err(Fail::Err(e.to_string())),
		Err(p) => Err(Fail::Panic(p)),
	}
}

// ------------------------------------------------------------------ equality of games

fn bm_eq(a: Option<&arrow2::bitmap::Bitmap>, b: Option<&arrow2::bitmap::Bitmap>, n: usize) -> bool {
	(0..n).all(|i| a.map_or(true, |x| i < x.len() && x.get_bit(i)) == b.map_or(true, |x| i < x.len() && x.get_bit(i)))
		&& a.map_or(true, |x| x.len() == n)
		&& b.map_or(true, |x| x.len() == n)
}

/// Field-by-field, bitwise equality of two column sets (validity `None` == all true).
pub fn frames_equal(a: &im::Frame, b: &im::Frame) -> Result<(), String> {
	if a.id.len() != b.id.len() {
		return Err(format!("row counts differ: {} vs {}", a.id.len(), b.id.len()));
	}
	let n = a.id.len();
	if a.id.values() != b.id.values() {
		return Err("frame ids differ".into());
	}
	if a.ports.len() != b.ports.len() {
		return Err(format!("port counts differ: {} vs {}", a.ports.len(), b.ports.len()));
	}
	for k in [Kind::Start, Kind::End, Kind::Item] {
		if FrameLike::has(a, k) != FrameLike::has(b, k) {
			return Err(format!("{} columns present in one game only", k.name()));
		}
	}
	for pi in 0..a.ports.len() {
		if a.ports[pi].port != b.ports[pi].port {
			return Err(format!("port slot {}: {:?} vs {:?}", pi, a.ports[pi].port, b.ports[pi].port));
		}
		if a.ports[pi].follower.is_some() != b.ports[pi].follower.is_some() {
			return Err(format!("port slot {}: follower columns in one game only", pi));
		}
		for fo in [false, true] {
			if fo && a.ports[pi].follower.is_none() {
				continue;
			}
			let (da, db) = if fo {
				(a.ports[pi].follower.as_ref().unwrap(), b.ports[pi].follower.as_ref().unwrap())
			} else {
				(&a.ports[pi].leader, &b.ports[pi].leader)
			};
			if !bm_eq(da.validity.as_ref(), db.validity.as_ref(), n) {
				return Err(format!("port slot {} {}: presence bitmaps differ", pi, if fo { "follower" } else { "leader" }));
			}
			for (kind, cnt) in [(Kind::Pre, view::PRE.len()), (Kind::Post, view::POST.len())] {
				for li in 0..cnt {
					cols_equal(a.leaf(kind, pi, fo, li), b.leaf(kind, pi, fo, li), da.validity.as_ref(), n, &format!("ports[{}].{}.{} leaf {}", pi, if fo { "follower" } else { "leader" }, kind.name(), li))?;
				}
			}
		}
	}
	for (kind, cnt) in [(Kind::Start, view::START.len()), (Kind::End, view::END.len())] {
		for li in 0..cnt {
			cols_equal(a.leaf(kind, 0, false, li), b.leaf(kind, 0, false, li), None, n, &format!("{} leaf {}", kind.name(), li))?;
		}
	}
	match (a.item_offsets(), b.item_offsets()) {
		(None, None) => {}
		(Some(x), Some(y)) => {
			if x != y {
				return Err(format!("item offsets differ: {:?} vs {:?}", x, y));
			}
			let m = *x.last().unwrap_or(&0) as usize;
			for li in 0..view::ITEM.len() {
				cols_equal(a.leaf(Kind::Item, 0, false, li), b.leaf(Kind::Item, 0, false, li), None, m, &format!("item leaf {}", li))?;
			}
		}
		_ => return Err("item offsets present in one game only".into()),
	}
	Ok(())
}

fn cols_equal<'a>(a: Option<Box<dyn ColLike + 'a>>, b: Option<Box<dyn ColLike + 'a>>, valid: Option<&arrow2::bitmap::Bitmap>, n: usize, what: &str) -> Result<(), String> {
	match (a, b) {
		(None, None) => Ok(()),
		(Some(a), Some(b)) => {
			if a.ty() != b.ty() {
				return Err(format!("{}: types differ", what));
			}
			if a.len() != n || b.len() != n {
				return Err(format!("{}: lengths {} / {} for {} rows", what, a.len(), b.len(), n));
			}
			for i in 0..n {
				// values at rows where the character is absent carry no information
				if valid.map_or(true, |v| v.get_bit(i)) && a.bits(i) != b.bits(i) {
					return Err(format!("{}: row {} differs: {:#x} vs {:#x}", what, i, a.bits(i), b.bits(i)));
				}
			}
			Ok(())
		}
		_ => Err(format!("{}: present in one game only", what)),
	}
}

/// Equality of everything a `Game` exposes except `hash` (compared separately where relevant).
pub fn games_equal(a: &Game, b: &Game, with_quirks: bool) -> Result<(), String> {
	start_eq(&a.start, &b.start, true)?;
	if a.end != b.end {
		return Err(format!("end differs: {:?} vs {:?}", a.end, b.end));
	}
	if a.metadata != b.metadata {
		return Err("metadata differs".into());
	}
	if let (Some(x), Some(y)) = (&a.metadata, &b.metadata) {
		if serde_json::to_string(x).unwrap() != serde_json::to_string(y).unwrap() {
			return Err("metadata key order differs".into());
		}
	}
	if a.gecko_codes != b.gecko_codes {
		return Err("gecko codes differ".into());
	}
	if with_quirks {
		let qa = a.quirks.map_or(false, |q| q.double_game_end);
		let qb = b.quirks.map_or(false, |q| q.double_game_end);
		if qa != qb {
			return Err(format!("quirks differ: {:?} vs {:?}", a.quirks, b.quirks));
		}
	}
	frames_equal(&a.frames, &b.frames)
}


/// Field-by-field equality of Game Start (floats bitwise, so NaN payloads compare equal to themselves).
pub fn start_eq(a: &peppi::game::Start, b: &peppi::game::Start, with_bytes: bool) -> Result<(), String> {
	macro_rules! f {
		($($field:ident),*) => { $( if a.$field != b.$field { return Err(format!("start.{} differs: {:?} vs {:?}", stringify!($field), a.$field, b.$field)); } )* };
	}
	f!(slippi, bitfield, is_raining_bombs, is_teams, item_spawn_frequency, self_destruct_score, stage, timer, item_spawn_bitfield, random_seed, is_pal, is_frozen_ps, scene, language, r#match);
	if a.damage_ratio.to_bits() != b.damage_ratio.to_bits() {
		return Err("start.damage_ratio differs".into());
	}
	if with_bytes && a.bytes != b.bytes {
		return Err("start.bytes differ".into());
	}
	if a.players.len() != b.players.len() {
		return Err(format!("start.players: {} vs {}", a.players.len(), b.players.len()));
	}
	for (x, y) in a.players.iter().zip(&b.players) {
		macro_rules! pf {
			($($field:ident),*) => { $( if x.$field != y.$field { return Err(format!("start.players[{:?}].{} differs: {:?} vs {:?}", x.port, stringify!($field), x.$field, y.$field)); } )* };
		}
		pf!(port, character, r#type, stocks, costume, team, handicap, bitfield, cpu_level, ucf, name_tag, netplay);
		if x.offense_ratio.to_bits() != y.offense_ratio.to_bits() || x.defense_ratio.to_bits() != y.defense_ratio.to_bits() || x.model_scale.to_bits() != y.model_scale.to_bits() {
			return Err(format!("start.players[{:?}] ratios differ", x.port));
		}
	}
	Ok(())
}

// ------------------------------------------------------------------ oracles for pre-pass artefacts

/// what a pre-pass read does, as an oracle (so that a hang verdict from there can be replayed): a
/// panic is a violation, a hang is caught by the watchdog around the replay
pub fn o_prepass_read_slp(input: &[u8], p: &crate::util::P) -> crate::util::Out {
	let mut out = crate::util::Out { nontrivial: true, ..Default::default() };
	if let Err(Fail::Panic(pn)) = read_slp(input, p.skip, p.hash) {
		out.viol = crate::common::viol("prepass_read_slp", p, &pn.key(), format!("panic: {}", pn.msg));
	}
	out
}

pub fn o_prepass_read_slpp(input: &[u8], p: &crate::util::P) -> crate::util::Out {
	let mut out = crate::util::Out { nontrivial: true, ..Default::default() };
	if let Err(Fail::Panic(pn)) = read_slpp(input, p.skip) {
		out.viol = crate::common::viol("prepass_read_slpp", p, &pn.key(), format!("panic: {}", pn.msg));
	}
	out
}

pub const ORACLES: &[(&str, crate::util::Oracle)] = &[("prepass_read_slp", o_prepass_read_slp), ("prepass_read_slpp", o_prepass_read_slpp)];
