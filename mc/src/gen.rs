//! Case generation shared by the history-based checks, and the fixture binding
//! (model -> reality).

#![allow(dead_code)]

use crate::hist::{histories, HistSpace};
use crate::model::{refparse, RefGame};
use crate::rec::*;
use crate::spec::{self, Kind};

#[derive(Clone, Copy, PartialEq, Eq, Debug)]
pub enum Depth {
	Quick,
	Thorough,
}

/// Histories for the event-level checks. Calls `f(abs, deviations)`.
pub fn history_replays(depth: Depth, mut f: impl FnMut(AbsReplay, usize)) {
	let quick = depth == Depth::Quick;
	let versions = if quick { spec::v_rep() } else { spec::v_edge() };
	for v in &versions {
		let regime = spec::regime(*v);
		let port_sets = if quick { small_port_configs() } else { all_port_configs() };
		for ports in port_sets {
			let is_small = small_port_configs().iter().any(|s| s.len() == ports.len() && s.iter().zip(&ports).all(|(a, b)| a.port == b.port && a.ics == b.ics));
			let (maxf, budget) = if quick {
				(3, 2)
			} else if is_small {
				(4, 3)
			} else {
				(3, 1)
			};
			let maxf = if ports.is_empty() && regime == 0 { 0 } else { maxf };
			let sp = HistSpace { regime, ports: ports.clone(), max_frames: maxf, min_frames: 0, budget, free_presence: false, max_items: 2 };
			for (h, dev) in histories(&sp) {
				let a = AbsReplay { ver: (v.0, v.1, 0), ports: ports.clone(), teams: false, gecko: Gecko::None, frames: h, ends: 1, metadata: Some(default_meta()), fill: Fill::A };
				// the stream may also stop without a Game End (the last frame is then closed by the end of the stream)
				let mut b = a.clone();
				b.ends = 0;
				b.metadata = None;
				f(b, dev);
				if dev == 0 {
					let mut c = a.clone();
					c.ends = 2;
					f(c, dev);
				}
				f(a, dev);
			}
		}
	}
	if quick {
		// every one of the 81 port / Ice-Climbers configurations, in each framing regime
		for v in [(0u8, 1u8), (2, 2), (3, 16)] {
			let regime = spec::regime(v);
			for ports in all_port_configs() {
				let maxf = if ports.is_empty() && regime == 0 { 0 } else { 2 };
				let sp = HistSpace { regime, ports: ports.clone(), max_frames: maxf, min_frames: maxf.min(1), budget: 1, free_presence: false, max_items: 1 };
				for (h, dev) in histories(&sp) {
					let a = AbsReplay { ver: (v.0, v.1, 0), ports: ports.clone(), teams: false, gecko: Gecko::None, frames: h, ends: 1, metadata: None, fill: Fill::B };
					f(a, dev);
				}
			}
		}
	}
	// frame ids at the extremes of i32 (only where a Frame Start carries the id)
	for v in [(2u8, 2u8), (3, 0), (3, 16)] {
		let ports = vec![pc(0, false), pc(2, true)];
		for ids in [vec![i32::MAX - 1, i32::MAX, i32::MIN, i32::MIN + 1], vec![-124, -123, -1, 0, 1], vec![i32::MIN, i32::MIN, i32::MAX, i32::MAX], vec![0x7FFF, 0x8000, 0xFFFF, 0x10000, 0x00FF_FFFF, 0x0100_0000]] {
			let mut a = base_replay(v, ports.clone(), ids.len());
			for (fr, id) in a.frames.iter_mut().zip(&ids) {
				fr.id = *id;
			}
			a.frames[1].present[1][1] = false;
			a.fill = Fill::B;
			f(a, 2);
		}
	}
	// all presence patterns (no deviation bound on presence) for configurations with <= 4 characters
	let reps = if quick { vec![(0, 1), (2, 0), (2, 2), (3, 0), (3, 16)] } else { spec::v_rep() };
	for v in &reps {
		let regime = spec::regime(*v);
		for ports in small_port_configs() {
			if n_chars(&ports) > 4 {
				continue;
			}
			let maxf = if quick { 2 } else { 3 };
			let sp = HistSpace { regime, ports: ports.clone(), max_frames: maxf, min_frames: maxf, budget: if quick { 0 } else { 1 }, free_presence: true, max_items: 1 };
			for (h, dev) in histories(&sp) {
				let a = AbsReplay { ver: (v.0, v.1, 0), ports: ports.clone(), teams: false, gecko: Gecko::None, frames: h, ends: 1, metadata: Some(default_meta()), fill: Fill::B };
				let mut b = a.clone();
				b.ends = 0;
				f(b, dev);
				f(a, dev);
			}
		}
	}
}

/// one replay per version with two ports (one ICs), 2 frames, absence + item
pub fn per_version_replay(v: (u8, u8), fill: Fill) -> AbsReplay {
	let mut a = base_replay(v, vec![pc(0, false), PortCfg { port: 2, ics: true, ptype: 1 }], 2);
	a.fill = fill;
	if spec::regime(v) == 2 {
		a.frames[0].items = 1;
		a.frames[1].items = 2;
	}
	a.frames[1].present[1][1] = false;
	a
}

/// Long games: beyond the parser's initial column capacity (1024 rows), absences at and around
/// bitmap word boundaries (rows 7/8, 63/64/65, 1023/1024), more than 65,535 items in total, more than 65,536 frames.
pub fn long_replays(quick: bool) -> Vec<AbsReplay> {
	let mut out = vec![];
	let versions: Vec<(u8, u8)> = if quick { vec![(1, 0), (2, 2), (3, 16)] } else { vec![(0, 1), (1, 0), (2, 0), (2, 2), (3, 0), (3, 7), (3, 16)] };
	for v in versions {
		let regime = spec::regime(v);
		let ports = vec![pc(0, false), PortCfg { port: 2, ics: true, ptype: 1 }, pc(3, false)];
		let n = if quick { 300 } else { 1100 };
		let mut a = base_replay(v, ports.clone(), n);
		for (i, f) in a.frames.iter_mut().enumerate() {
			if regime > 0 {
				// a few rollbacks: every 97th frame repeats the id two rows back
				f.id = -123 + (i as i32) - ((i / 97) as i32) * 2;
			}
			// P3 follower absent on rows around word boundaries and every 7th row
			if i % 7 == 3 || matches!(i, 7 | 8 | 63 | 64 | 65 | 127 | 128 | 255 | 256 | 1023 | 1024) {
				f.present[1][1] = false;
			}
			// P4 leader absent from row 64 to 130 and from 1020 on
			if (64..=130).contains(&i) || i >= 1020 {
				f.present[2][0] = false;
			}
			if regime == 2 {
				f.items = i % 3;
			}
		}
		out.push(a);
	}
	{
		// more than 65,535 items in one game
		let mut a = base_replay((3, 16), vec![pc(0, false), pc(1, false)], 110);
		for f in a.frames.iter_mut() {
			f.items = 610;
		}
		a.metadata = None;
		out.push(a);
	}
	{
		// more than 65,536 frames (a game of over 18 minutes): row counts beyond 16 bits, more than one
		// chunk for anything that batches rows
		let mut a = base_replay((0, 1), vec![pc(0, false)], 65_540);
		a.metadata = None;
		out.push(a);
		let mut b = base_replay((3, 16), vec![pc(1, false)], 65_540);
		b.frames[65_538].id = b.frames[65_536].id; // a rollback across the 65,536th row
		b.frames[65_539].items = 1;
		out.push(b);
	}
	out
}

/// The "universe": the FULL cross product of small levels of every optional dimension of a replay
/// (version class x port shape x frame-history shape x Gecko list x Game Ends x metadata x fill).
/// Every check runs its own oracles over it, so no check is left with a base set that fixes one
/// of these dimensions.
pub fn universe(quick: bool) -> Vec<AbsReplay> {
	use crate::ubj::MVal;
	let versions: Vec<(u8, u8)> = if quick { vec![(0, 1), (1, 0), (2, 0), (2, 2), (3, 0), (3, 6), (3, 13), (3, 16)] } else { spec::v_rep() };
	let port_shapes: Vec<Vec<PortCfg>> = vec![vec![pc(0, false)], vec![pc(0, true), pc(2, false)], vec![pc(1, false), PortCfg { port: 2, ics: false, ptype: 2 }, PortCfg { port: 3, ics: true, ptype: 1 }], vec![]];
	let intl: crate::ubj::Meta = vec![("プレイヤー".into(), MVal::Str("ピーチ姫 é".into())), ("n".into(), MVal::Map(vec![("k".into(), MVal::Int(-7))]))];
	let metas: Vec<Option<crate::ubj::Meta>> = vec![Some(default_meta()), None, Some(vec![]), Some(intl)];
	let mut out = vec![];
	for v in &versions {
		let regime = spec::regime(*v);
		let geckos: Vec<Gecko> = if spec::gte(*v, (3, 3)) { vec![Gecko::None, Gecko::Live { live: 700, nonzero_pad: true }, Gecko::Live { live: 1024, nonzero_pad: false }, Gecko::Live { live: 66000, nonzero_pad: false }, Gecko::Live { live: 262_700, nonzero_pad: false }] } else { vec![Gecko::None] };
		for ports in &port_shapes {
			for shape in 0..4usize {
				// frame-history shapes
				if ports.is_empty() && regime == 0 && shape != 0 {
					continue; // no players and no Frame Start: nothing can make a frame
				}
				let mut a = base_replay(*v, ports.clone(), [0usize, 1, 3, 2][shape]);
				match shape {
					2 => {
						// absence of a leader, then back; rollback; items
						if !ports.is_empty() {
							let last = ports.len() - 1;
							a.frames[1].present[last][0] = false;
							if ports[0].ics {
								a.frames[0].present[0][1] = false;
							}
						}
						if regime >= 1 {
							a.frames[2].id = -123;
						}
						if regime == 2 {
							a.frames[0].items = 1;
							a.frames[2].items = 2;
						}
					}
					3 => {
						// everything absent that the regime allows, in the last frame
						for (pi, p) in ports.iter().enumerate() {
							if pi == 0 && regime == 0 && !p.ics {
								continue;
							}
							a.frames[1].present[pi] = [false, false];
						}
						if regime == 0 && !ports.is_empty() && ports[0].ics {
							a.frames[1].present[0][1] = true; // a frame needs an event before 2.2: Nana alone
						}
					}
					_ => {}
				}
				if regime == 0 {
					// before 2.2 a frame exists only through its events: keep at least one character in each
					for f in a.frames.iter_mut() {
						let any = f.present.iter().zip(ports.iter()).any(|(p, c)| p[0] || (c.ics && p[1]));
						if !any {
							f.present[0][0] = true;
						}
					}
				}
				for gk in &geckos {
					for ends in 0..=2u8 {
						for meta in &metas {
							for fill in [Fill::A, Fill::Ones] {
								if matches!(gk, Gecko::Live { live: 66000 | 262_700, .. }) && !(ends == 1 && fill == Fill::A && shape == 1 && meta.as_ref().map_or(false, |m| m.len() == 4)) {
									continue;
								}
								if fill == Fill::Ones && quick && (shape != 2 || ends != 1) {
									continue;
								}
								let mut b = a.clone();
								b.gecko = *gk;
								b.ends = ends;
								b.metadata = meta.clone();
								b.fill = fill;
								out.push(b);
							}
						}
					}
				}
			}
		}
	}
	out
}

// ------------------------------------------------------------------ fixtures

pub struct Fixture {
	pub path: String,
	pub bytes: Vec<u8>,
	pub rg: Option<RefGame>,
}

pub fn fixtures() -> Vec<Fixture> {
	let mut out = vec![];
	for sub in ["tests/data", "benches/data"] {
		let dir = format!("{}/{}", crate::util::repo_home(), sub);
		let mut names: Vec<_> = match std::fs::read_dir(&dir) {
			Ok(d) => d.filter_map(|e| e.ok()).map(|e| e.path()).collect(),
			Err(_) => continue,
		};
		names.sort();
		for p in names {
			if p.extension().map_or(true, |e| e != "slp") {
				continue;
			}
			let bytes = match std::fs::read(&p) {
				Ok(b) => b,
				Err(_) => continue,
			};
			if bytes.is_empty() {
				continue;
			}
			let rg = refparse(&bytes).ok();
			out.push(Fixture { path: p.display().to_string(), bytes, rg });
		}
	}
	out
}

/// Model -> reality: for each fixture the walker accepts, the payload table must carry the sizes
/// the model prescribes for that version, and re-emitting the walked events in the recorder's
/// canonical order must reproduce the raw element byte for byte.
pub fn bind_fixtures() -> Result<(usize, usize, Vec<String>), String> {
	let fx = fixtures();
	let mut bound = 0;
	let mut canonical = 0;
	let mut names = vec![];
	for f in &fx {
		let rg = match &f.rg {
			Some(r) => r,
			None => continue,
		};
		let v = rg.v2();
		if spec::gte(v, (3, 17)) {
			continue;
		}
		for (code, sz) in &rg.table {
			let want = match code {
				0x36 => Some(spec::game_start_size(v)),
				0x37 => Some(spec::frame_payload_size(Kind::Pre, v)),
				0x38 => Some(spec::frame_payload_size(Kind::Post, v)),
				0x39 => Some(spec::game_end_size(v)),
				0x3A => Some(spec::frame_payload_size(Kind::Start, v)),
				0x3B => Some(spec::frame_payload_size(Kind::Item, v)),
				0x3C => Some(spec::frame_payload_size(Kind::End, v)),
				0x10 => Some(516),
				_ => None,
			};
			if let Some(w) = want {
				if w != *sz as usize {
					return Err(format!("{}: version {}.{} declares size {} for event {:#x}; the model says {}", f.path, v.0, v.1, sz, code, w));
				}
			}
		}
		bound += 1;
		names.push(f.path.rsplit('/').next().unwrap_or("").to_string());
		// canonical re-emission
		let mut raw: Vec<u8> = vec![];
		for r in &rg.rows {
			if let Some(s) = &r.start {
				raw.push(0x3A);
				raw.extend_from_slice(s);
			}
			for c in r.chars.iter().flatten().flatten() {
				raw.push(0x37);
				raw.extend_from_slice(&c.pre);
			}
			for i in &r.items {
				raw.push(0x3B);
				raw.extend_from_slice(i);
			}
			for c in r.chars.iter().flatten().flatten() {
				raw.push(0x38);
				raw.extend_from_slice(&c.post);
			}
			if let Some(s) = &r.end {
				raw.push(0x3C);
				raw.extend_from_slice(s);
			}
		}
		// locate the frame section of the file: from the first frame event to the Game End
		let first = rg.boundaries.iter().copied().find(|b| matches!(f.bytes[*b], 0x37 | 0x3A));
		if let Some(st) = first {
			if rg.unknown_events == 0 && f.bytes.len() >= st + raw.len() && f.bytes[st..st + raw.len()] == raw[..] {
				canonical += 1;
			}
		}
	}
	if bound < 10 {
		return Err(format!("only {} fixture replays could be bound to the model", bound));
	}
	Ok((bound, canonical, names))
}
