//! The environment the library talks to, owned by the harness: a reader that answers every
//! `read` call from a schedule, and a virtual clock (interposed sleep).

#![allow(dead_code)]

use std::io::{self, Read, Seek, SeekFrom};

/// How the stream answers read calls.
#[derive(Clone, Debug, PartialEq)]
pub enum Sched {
	/// every read is satisfied in full (what an in-memory file does)
	Full,
	/// every read returns at most `n` bytes
	Chunk(usize),
	/// full reads, except: the read that would cross absolute offset `at` stops there (two-piece split)
	SplitAt(usize),
	/// full reads, except read call number i (0-based) returns at most k bytes, for each (i, k)
	ShortAt(Vec<(usize, usize)>),
	/// read call number i fails with the given error kind
	FailAt(usize, io::ErrorKind),
}

/// An owned variant for streams that do not start at position 0: `prefix` junk bytes precede the
/// data and the reader is handed over already positioned after them (a replay embedded in a
/// container, the second of two concatenated files).
pub struct PrefixedReader {
	pub buf: Vec<u8>,
	pub pos: usize,
}

impl PrefixedReader {
	pub fn new(data: &[u8], prefix: usize) -> Self {
		let mut buf: Vec<u8> = (0..prefix).map(|i| (i * 31 + 7) as u8).collect();
		buf.extend_from_slice(data);
		PrefixedReader { buf, pos: prefix }
	}
}

impl Read for PrefixedReader {
	fn read(&mut self, out: &mut [u8]) -> io::Result<usize> {
		let avail = self.buf.len().saturating_sub(self.pos);
		let n = out.len().min(avail);
		out[..n].copy_from_slice(&self.buf[self.pos..self.pos + n]);
		self.pos += n;
		Ok(n)
	}
}

impl Seek for PrefixedReader {
	fn seek(&mut self, pos: SeekFrom) -> io::Result<u64> {
		let new = match pos {
			SeekFrom::Start(n) => n as i64,
			SeekFrom::Current(d) => self.pos as i64 + d,
			SeekFrom::End(d) => self.buf.len() as i64 + d,
		};
		if new < 0 {
			return Err(io::Error::new(io::ErrorKind::InvalidInput, "env: seek before start"));
		}
		self.pos = new as usize;
		Ok(self.pos as u64)
	}
}

pub struct EnvReader<'a> {
	pub data: &'a [u8],
	pub pos: usize,
	pub sched: Sched,
	pub calls: usize,
	pub handed: usize,
	pub eof_reads: usize,
	pub seeks: usize,
	pub max_calls: usize,
	pub overrun: bool,
}

impl<'a> EnvReader<'a> {
	pub fn new(data: &'a [u8], sched: Sched) -> Self {
		EnvReader {
			data,
			pos: 0,
			sched,
			calls: 0,
			handed: 0,
			eof_reads: 0,
			seeks: 0,
			max_calls: 8 * data.len() + 64,
			overrun: false,
		}
	}
}

impl<'a> Read for EnvReader<'a> {
	fn read(&mut self, buf: &mut [u8]) -> io::Result<usize> {
		let call = self.calls;
		self.calls += 1;
		if self.calls > self.max_calls {
			// progress bound: the caller loops without consuming input
			self.overrun = true;
			return Err(io::Error::new(io::ErrorKind::Other, "env: progress bound exceeded"));
		}
		let avail = self.data.len().saturating_sub(self.pos);
		let mut n = buf.len().min(avail);
		match &self.sched {
			Sched::Full => {}
			Sched::Chunk(c) => n = n.min(*c),
			Sched::SplitAt(at) => {
				if self.pos < *at && self.pos + n > *at {
					n = *at - self.pos;
				}
			}
			Sched::ShortAt(v) => {
				for (i, k) in v {
					if *i == call {
						n = n.min(*k);
					}
				}
			}
			Sched::FailAt(i, kind) => {
				if *i == call {
					return Err(io::Error::new(*kind, "env: injected fault"));
				}
			}
		}
		if n == 0 && !buf.is_empty() && avail > 0 {
			// a zero-length answer would mean EOF to the caller; a short read hands out >= 1 byte
			n = 1;
		}
		if avail == 0 {
			if !buf.is_empty() {
				self.eof_reads += 1;
			}
			return Ok(0);
		}
		buf[..n].copy_from_slice(&self.data[self.pos..self.pos + n]);
		self.pos += n;
		self.handed += n;
		Ok(n)
	}
}

impl<'a> Seek for EnvReader<'a> {
	fn seek(&mut self, pos: SeekFrom) -> io::Result<u64> {
		self.seeks += 1;
		let new = match pos {
			SeekFrom::Start(n) => n as i64,
			SeekFrom::Current(d) => self.pos as i64 + d,
			SeekFrom::End(d) => self.data.len() as i64 + d,
		};
		if new < 0 {
			return Err(io::Error::new(io::ErrorKind::InvalidInput, "env: seek before start"));
		}
		self.pos = new as usize;
		Ok(self.pos as u64)
	}
}

// ------------------------------------------------------------------ virtual clock
//
// The binary defines the libc sleep entry points itself; the static link binds
// std::thread::sleep to them. Sleeping costs nothing and is counted.

#[no_mangle]
pub extern "C" fn nanosleep(_req: *const libc::timespec, _rem: *mut libc::timespec) -> libc::c_int {
	crate::util::on_sleep();
	0
}

#[no_mangle]
pub extern "C" fn clock_nanosleep(
	_clock: libc::clockid_t,
	_flags: libc::c_int,
	_req: *const libc::timespec,
	_rem: *mut libc::timespec,
) -> libc::c_int {
	crate::util::on_sleep();
	0
}

/// start-up self-test: a 1 s sleep must return at once and be counted
pub fn clock_self_test() -> Result<(), String> {
	use std::sync::atomic::Ordering;
	let before = crate::util::SLEEP_TOTAL.load(Ordering::Relaxed);
	let t = std::time::Instant::now();
	std::thread::sleep(std::time::Duration::from_secs(1));
	let el = t.elapsed();
	let after = crate::util::SLEEP_TOTAL.load(Ordering::Relaxed);
	crate::util::SLEEPS_IN_CASE.with(|s| *s.borrow_mut() = 0);
	if el.as_millis() > 50 || after != before + 1 {
		return Err(format!("virtual clock not in effect: 1 s sleep took {:?}, counted {}", el, after - before));
	}
	Ok(())
}


// ------------------------------------------------------------------ wall clock
//
// The wall clock is owned too: every reading of CLOCK_REALTIME is one second later than the
// previous one, so anything the library derives from "now" differs between two calls and shows
// up in the determinism oracles (C18: writing the same game twice gives identical bytes).
// CLOCK_MONOTONIC (Instant, used by the watchdog) is passed through untouched.

static REALTIME_READS: std::sync::atomic::AtomicI64 = std::sync::atomic::AtomicI64::new(0);

#[no_mangle]
pub extern "C" fn clock_gettime(clock: libc::clockid_t, ts: *mut libc::timespec) -> libc::c_int {
	let rc = unsafe { libc::syscall(libc::SYS_clock_gettime, clock as libc::c_long, ts) } as libc::c_int;
	if rc == 0 && clock == libc::CLOCK_REALTIME && !ts.is_null() {
		let n = REALTIME_READS.fetch_add(1, std::sync::atomic::Ordering::Relaxed);
		unsafe {
			(*ts).tv_sec += n as libc::time_t;
		}
	}
	rc
}

pub fn wall_clock_self_test() -> Result<(), String> {
	let a = std::time::SystemTime::now();
	let b = std::time::SystemTime::now();
	match b.duration_since(a) {
		Ok(d) if d.as_millis() >= 900 => Ok(()),
		other => Err(format!("wall clock not owned: two consecutive readings differ by {:?}", other)),
	}
}

// ------------------------------------------------------------------ logging
//
// A logger is installed with every level enabled, so that the argument expressions of the
// library's debug!/trace!/info!/warn! calls are evaluated (they are skipped entirely when no
// logger is enabled). Records are formatted into a sink and dropped.

struct SinkLogger;

impl log::Log for SinkLogger {
	fn enabled(&self, _: &log::Metadata) -> bool {
		true
	}
	fn log(&self, record: &log::Record) {
		use std::io::Write;
		let _ = write!(std::io::sink(), "{}", record.args());
	}
	fn flush(&self) {}
}

static LOGGER: SinkLogger = SinkLogger;

pub fn install_logger() {
	if std::env::var("VERIF_NO_LOGGER").is_ok() {
		return;
	}
	let _ = log::set_logger(&LOGGER);
	log::set_max_level(log::LevelFilter::Trace);
}

/// A stream of more than 2 GiB that is never held in memory: `head`, then `n` copies of a 65,536-byte
/// block (one event: a code byte and 65,535 payload bytes), then `tail`. Answers `Read` and `Seek`.
pub struct SparseReader {
	pub head: Vec<u8>,
	pub block: Vec<u8>,
	pub n: u64,
	pub tail: Vec<u8>,
	pub pos: u64,
	pub bytes_read: u64,
	pub seeks: u64,
}

impl SparseReader {
	pub fn len(&self) -> u64 {
		self.head.len() as u64 + self.n * self.block.len() as u64 + self.tail.len() as u64
	}
}

impl Read for SparseReader {
	fn read(&mut self, out: &mut [u8]) -> io::Result<usize> {
		let (h, b) = (self.head.len() as u64, self.block.len() as u64);
		let mid_end = h + self.n * b;
		let mut done = 0usize;
		while done < out.len() && self.pos < self.len() {
			let (src, off): (&[u8], usize) = if self.pos < h {
				(&self.head, self.pos as usize)
			} else if self.pos < mid_end {
				(&self.block, ((self.pos - h) % b) as usize)
			} else {
				(&self.tail, (self.pos - mid_end) as usize)
			};
			let k = (src.len() - off).min(out.len() - done);
			out[done..done + k].copy_from_slice(&src[off..off + k]);
			done += k;
			self.pos += k as u64;
		}
		self.bytes_read += done as u64;
		Ok(done)
	}
}

impl Seek for SparseReader {
	fn seek(&mut self, pos: SeekFrom) -> io::Result<u64> {
		self.seeks += 1;
		let new = match pos {
			SeekFrom::Start(n) => n as i128,
			SeekFrom::Current(d) => self.pos as i128 + d as i128,
			SeekFrom::End(d) => self.len() as i128 + d as i128,
		};
		if new < 0 {
			return Err(io::Error::new(io::ErrorKind::InvalidInput, "env: invalid seek to a negative position"));
		}
		self.pos = new as u64;
		Ok(self.pos)
	}
}
