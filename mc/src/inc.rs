//! Driving peppi's incremental API over an environment-owned reader, and the oracles that
//! look at the parser after every single event.

#![allow(dead_code)]

use std::io::Read;

use peppi::game::Game as GameTrait;
use peppi::io::slippi::de;

use crate::common::*;
use crate::env::{EnvReader, Sched};
use crate::model::{compare_frames, compare_transposed, transposed_equal, RefGame};
use crate::ops::*;
use crate::util::*;

pub const A_ROWS: i64 = 1; // rows / presence / values of completed rows after every event (C04)
pub const A_TRANSPOSE: i64 = 2; // row view == columns (C13)
pub const A_BYTES: i64 = 4; // bytes_read accounting, frame count monotone (C12)
pub const A_FINAL: i64 = 8; // final state == one-shot game (C12)
pub const A_ONESHOT: i64 = 16; // one-shot read compared with the model (C03/C04)
pub const A_OPEN: i64 = 32; // the input is a prefix of an event history (may stop inside a frame)
pub const A_VIA_SLPP: i64 = 128; // the finished game is also looked at after a trip through .slpp (C13)
pub const A_LASTONLY: i64 = 64; // look at the state only after the last event (predecessors were checked as their own states)

pub fn sched_of(p: &P) -> Sched {
	match p.n[1] {
		1 => Sched::Chunk(p.n[2] as usize),
		2 => Sched::SplitAt(p.n[2] as usize),
		3 => {
			let mut v = vec![(p.n[2] as usize, p.n[3] as usize)];
			if p.n[4] >= 0 {
				v.push((p.n[4] as usize, p.n[5] as usize));
			}
			Sched::ShortAt(v)
		}
		4 => Sched::FailAt(p.n[2] as usize, err_kind(p.n[3])),
		_ => Sched::Full,
	}
}

pub fn err_kind(k: i64) -> std::io::ErrorKind {
	use std::io::ErrorKind::*;
	match k {
		0 => Other,
		1 => UnexpectedEof,
		2 => TimedOut,
		3 => WouldBlock,
		4 => Interrupted,
		_ => BrokenPipe,
	}
}

pub fn set_sched(p: &mut P, s: &Sched) {
	p.n[1] = 0;
	p.n[4] = -1;
	match s {
		Sched::Full => {}
		Sched::Chunk(k) => {
			p.n[1] = 1;
			p.n[2] = *k as i64;
		}
		Sched::SplitAt(k) => {
			p.n[1] = 2;
			p.n[2] = *k as i64;
		}
		Sched::ShortAt(v) => {
			p.n[1] = 3;
			p.n[2] = v[0].0 as i64;
			p.n[3] = v[0].1 as i64;
			if v.len() > 1 {
				p.n[4] = v[1].0 as i64;
				p.n[5] = v[1].1 as i64;
			}
		}
		Sched::FailAt(i, k) => {
			p.n[1] = 4;
			p.n[2] = *i as i64;
			use std::io::ErrorKind::*;
			p.n[3] = match k {
				Other => 0,
				UnexpectedEof => 1,
				TimedOut => 2,
				WouldBlock => 3,
				Interrupted => 4,
				_ => 5,
			};
		}
	}
}

/// Drive header, start, one event per call, metadata; look at the state after every call.
/// Aspects to check are in p.n[0]; the read schedule in p.n[1..].
pub fn o_incremental(input: &[u8], p: &P) -> Out {
	let aspects = p.n[0];
	let rg = if aspects & A_OPEN != 0 {
		crate::model::refparse_opts(input, true).unwrap_or_else(|e| machinery(&format!("incremental(prefix): generated input is outside the model's domain: {}", e)))
	} else {
		domain(input, "incremental")
	};
	let mut out = out_from(&rg);
	let r = catch(|| incremental_inner(input, p, &rg, aspects));
	match r {
		Ok(Ok(obs)) => out.obs = obs,
		Ok(Err((sym, msg))) => {
			out.obs = 3;
			out.viol = viol("incremental", p, &sym, msg);
		}
		Err(pn) => {
			out.obs = 4;
			out.viol = viol("incremental", p, &pn.key(), format!("panic while driving the incremental API: {}", pn.msg));
		}
	}
	out
}

fn incremental_inner(input: &[u8], p: &P, rg: &RefGame, aspects: i64) -> Result<u64, (String, String)> {
	let e = |s: &str, m: String| (s.to_string(), m);
	let mut r = EnvReader::new(input, sched_of(p));
	// the options are handed to every incremental call, as the one-shot reader does
	let opts_val = slp_opts(p.skip, p.hash);
	let opts = if p.skip || p.hash { Some(&opts_val) } else { None };
	let raw_len = de::parse_header(&mut r, opts).map_err(|x| e("inc-error", format!("parse_header failed on a well-formed replay: {}", x)))? as usize;
	if raw_len != rg.raw_len_declared as usize {
		return Err(e("inc-header", format!("parse_header returned {} but the file declares {}", raw_len, rg.raw_len_declared)));
	}
	let mut state = de::parse_start(&mut r, opts).map_err(|x| e("inc-error", format!("parse_start failed on a well-formed replay: {}", x)))?;
	let start_bytes = 2 + 3 * rg.table.len() + 1 + rg.start_block.len();
	if aspects & A_BYTES != 0 {
		if state.bytes_read() != start_bytes {
			return Err(e("bytes-read", format!("after parse_start bytes_read() = {} but payload table + Game Start are {} raw bytes", state.bytes_read(), start_bytes)));
		}
		if r.handed != 15 + start_bytes {
			return Err(e("over-read", format!("after parse_start the reader has handed out {} bytes, the parser accounts for {}", r.handed, 15 + start_bytes)));
		}
	}
	let mut prev_len = state.frames().len();
	let mut n = 0usize;
	let mut obs = 0u64;
	while state.bytes_read() < raw_len {
		let code = de::parse_event(&mut r, &mut state, opts).map_err(|x| e("inc-error", format!("parse_event #{} failed on a well-formed replay: {}", n, x)))?;
		if n >= rg.rows_done.len() {
			return Err(e("inc-events", format!("parse_event succeeded {} times but the raw element has {} events", n + 1, rg.rows_done.len())));
		}
		let done = rg.rows_done[n];
		let look = aspects & A_LASTONLY == 0 || n + 1 == rg.rows_done.len();
		if aspects & A_BYTES != 0 && look {
			if state.bytes_read() != rg.bytes_after[n] {
				return Err(e("bytes-read", format!("after event #{} (code {:#x}) bytes_read() = {} but {} raw bytes have been consumed", n, code, state.bytes_read(), rg.bytes_after[n])));
			}
			if r.handed != 15 + rg.bytes_after[n] {
				return Err(e("over-read", format!("after event #{} the reader has handed out {} bytes but the events so far end at {}", n, r.handed, 15 + rg.bytes_after[n])));
			}
			let len = state.frames().len();
			if len < prev_len {
				return Err(e("frames-decreased", format!("frame count went from {} to {} at event #{}", prev_len, len, n)));
			}
			if GameTrait::len(&state) != len {
				return Err(e("len", format!("Game::len() = {} but frames().len() = {}", GameTrait::len(&state), len)));
			}
			prev_len = len;
		}
		if aspects & A_ROWS != 0 && look {
			compare_frames(state.frames(), rg, done, false).map_err(|(k, m)| e(&format!("inc-{}", k), format!("after event #{} (code {:#x}, {} rows complete): {}", n, code, done, m)))?;
		}
		if aspects & A_TRANSPOSE != 0 && look {
			// every completed row is looked at again after every event: a completed row must not change
			// while later frames are being filled (long games: only the last 3 completed rows)
			let from = if done > 8 { done - 3 } else { 0 };
			for i in from..done {
				let t = state.frames().transpose_one(i, state.start().slippi.version);
				compare_transposed(state.frames(), i, &t).map_err(|(k, m)| e(&format!("inc-{}", k), format!("in-progress, after event #{}: {}", n, m)))?;
				let t2 = GameTrait::frame(&state, i);
				transposed_equal(&t, &t2).map_err(|m| e("inc-frame-accessor", format!("Game::frame({}) differs from transpose_one: {}", i, m)))?;
			}
		}
		obs = fnv_mix(obs, (code as u64) << 32 | state.frames().len() as u64);
		n += 1;
		if code == 0x39 {
			break;
		}
	}
	if aspects & A_BYTES != 0 && rg.n_ends == 2 && rg.junk_after_end == 0 && state.bytes_read() < raw_len {
		// a doubled Game End is one more event in the raw element: a driver that keeps calling
		// parse_event until all raw bytes are consumed must see it counted like any other event
		let frames_before = state.frames().len();
		let code = de::parse_event(&mut r, &mut state, opts).map_err(|x| e("inc-error", format!("parse_event on the second Game End failed: {}", x)))?;
		if code != 0x39 {
			return Err(e("inc-events", format!("second Game End reported as event {:#x}", code)));
		}
		if state.bytes_read() != raw_len {
			return Err(e("bytes-read", format!("after the second Game End bytes_read() = {} but all {} raw bytes have been consumed", state.bytes_read(), raw_len)));
		}
		if r.handed != 15 + raw_len {
			return Err(e("over-read", format!("after the second Game End the reader has handed out {} bytes, the raw element ends at {}", r.handed, 15 + raw_len)));
		}
		if state.frames().len() != frames_before {
			return Err(e("frames-changed", "the second Game End changed the frame count".into()));
		}
	}
	if aspects & A_FINAL != 0 {
		// README: after the event loop, `U` announces metadata
		if state.bytes_read() < raw_len {
			// junk inside raw after Game End: the one-shot reader consumes it; do the same by hand
			let mut buf = vec![0u8; raw_len - state.bytes_read()];
			r.read_exact(&mut buf).map_err(|x| e("inc-error", format!("{}", x)))?;
		}
		let mut b = [0u8; 1];
		r.read_exact(&mut b).map_err(|x| e("inc-error", format!("{}", x)))?;
		if b[0] == 0x55 {
			de::parse_metadata(&mut r, &mut state, opts).map_err(|x| e("inc-error", format!("parse_metadata failed on a well-formed replay: {}", x)))?;
		}
		let g = read_slp_default(input).map_err(|f| e("oneshot-failed", format!("one-shot read failed: {}", f.describe())))?;
		start_eq(state.start(), &g.start, true).map_err(|m| e("final-start", format!("incremental start != one-shot start: {}", m)))?;
		if state.end() != &g.end {
			return Err(e("final-end", format!("incremental end {:?} != one-shot end {:?}", state.end(), g.end)));
		}
		if state.metadata() != &g.metadata {
			return Err(e("final-metadata", "incremental metadata != one-shot metadata".into()));
		}
		if state.gecko_codes() != &g.gecko_codes {
			return Err(e("final-gecko", "incremental gecko codes != one-shot gecko codes".into()));
		}
		let n_done = *rg.rows_done.last().unwrap_or(&0);
		let one_len = GameTrait::len(&g);
		if GameTrait::len(&state) != one_len {
			return Err(e("final-len", format!("incremental len {} != one-shot len {}", GameTrait::len(&state), one_len)));
		}
		// rows the stream has completed must be readable through the Game trait and equal the one-shot's
		for i in 0..n_done.min(one_len) {
			let a = GameTrait::frame(&state, i);
			let b = GameTrait::frame(&g, i);
			transposed_equal(&a, &b).map_err(|m| e("final-frame", format!("frame({}) of the incremental state differs from the one-shot game: {}", i, m)))?;
		}
		compare_frames(state.frames(), rg, n_done, false).map_err(|(k, m)| e(&format!("final-{}", k), format!("final incremental state: {}", m)))?;
	}
	Ok(obs)
}

/// One-shot read compared with the model (rows, presence, values, items, lengths) and the row view.
pub fn o_model(input: &[u8], p: &P) -> Out {
	let rg = domain(input, "model");
	let mut out = out_from(&rg);
	let aspects = p.n[0];
	let g = match read_slp(input, false, p.hash) {
		Ok(g) => g,
		Err(f) => {
			out.obs = 1;
			out.viol = viol("model", p, &format!("read-failed:{}", f.key()), format!("reading a well-formed replay failed: {}", f.describe()));
			return out;
		}
	};
	out.obs = fnv_mix(g.frames.len() as u64, xx(&g.start.bytes.0));
	let r = catch(|| -> Result<(), (String, String)> {
		if aspects & A_ONESHOT != 0 {
			compare_frames(&g.frames, &rg, rg.rows.len(), true)?;
			// every struct below a character that keeps validity bits keeps one per row, equal to the presence
			let n = rg.rows.len();
			// (the per-frame Start and End records exist for every row)
			for (name, bm) in [("start", g.frames.start.as_ref().and_then(|x| x.validity.as_ref())), ("end", g.frames.end.as_ref().and_then(|x| x.validity.as_ref()))] {
				if let Some(b) = bm {
					if b.len() != n || b.unset_bits() != 0 {
						return Err(("struct-validity".into(), format!("frames.{}: validity bitmap has {} bits ({} unset) for {} rows", name, b.len(), b.unset_bits(), n)));
					}
				}
			}
			for (pi, port) in g.frames.ports.iter().enumerate() {
				for fo in [false, true] {
					let d = match (fo, &port.follower) {
						(false, _) => &port.leader,
						(true, Some(f)) => f,
						(true, None) => continue,
					};
					let mut bms: Vec<(&str, Option<&arrow2::bitmap::Bitmap>)> = vec![("pre", d.pre.validity.as_ref()), ("pre.position", d.pre.position.validity.as_ref()), ("pre.joystick", d.pre.joystick.validity.as_ref()), ("pre.cstick", d.pre.cstick.validity.as_ref()), ("pre.triggers_physical", d.pre.triggers_physical.validity.as_ref()), ("post", d.post.validity.as_ref()), ("post.position", d.post.position.validity.as_ref())];
					if let Some(v) = &d.post.velocities {
						bms.push(("post.velocities", v.validity.as_ref()));
					}
					for (name, bm) in bms {
						if let Some(b) = bm {
							if b.len() != n {
								return Err(("struct-validity".into(), format!("ports[{}].{}.{}: validity bitmap has {} bits for {} rows", pi, if fo { "follower" } else { "leader" }, name, b.len(), n)));
							}
							for i in 0..n {
								let present = rg.rows[i].chars[pi][fo as usize].is_some();
								if b.get_bit(i) != present {
									return Err(("struct-validity".into(), format!("ports[{}].{}.{} row {}: validity bit {} but the character is {}", pi, if fo { "follower" } else { "leader" }, name, i, b.get_bit(i), if present { "present" } else { "absent" })));
								}
							}
						}
					}
				}
			}
			if g.start.bytes.0 != rg.start_block {
				return Err(("start-bytes".into(), "start.bytes differs from the raw Game Start block".into()));
			}
			if g.end.as_ref().map(|e| &e.bytes.0) != rg.end_block.as_ref() {
				return Err(("end-bytes".into(), "end.bytes differs from the raw Game End block (or presence differs)".into()));
			}
		}
		if aspects & A_TRANSPOSE != 0 {
			for i in 0..g.frames.len() {
				let t = g.frames.transpose_one(i, g.start.slippi.version);
				compare_transposed(&g.frames, i, &t)?;
				let t2 = GameTrait::frame(&g, i);
				transposed_equal(&t, &t2).map_err(|m| ("frame-accessor".to_string(), format!("Game::frame({}) differs from transpose_one: {}", i, m)))?;
			}
		}
		if aspects & A_VIA_SLPP != 0 {
			// the finished representation as loaded from an archive: same rows, and rows == its own columns
			let g1 = read_slp(input, false, false).map_err(|f| ("reread-failed".to_string(), f.describe()))?;
			let arch = write_slpp(g1, (xx(input) % 3) as u8).map_err(|f| (format!("slpp-write-failed:{}", f.key()), f.describe()))?;
			let g2 = read_slpp(&arch, false).map_err(|f| (format!("slpp-read-failed:{}", f.key()), f.describe()))?;
			if g2.frames.len() != g.frames.len() {
				return Err(("slpp-rows".into(), format!("{} rows after .slpp, {} before", g2.frames.len(), g.frames.len())));
			}
			for i in 0..g2.frames.len() {
				let t = g2.frames.transpose_one(i, g2.start.slippi.version);
				compare_transposed(&g2.frames, i, &t).map_err(|(k, m)| (format!("via-slpp:{}", k), format!("game loaded from .slpp: {}", m)))?;
				let t0 = g.frames.transpose_one(i, g.start.slippi.version);
				transposed_equal(&t0, &t).map_err(|m| ("via-slpp:row".to_string(), format!("row {} of the game loaded from .slpp differs from the row of the game read from .slp: {}", i, m)))?;
				let t2 = GameTrait::frame(&g2, i);
				transposed_equal(&t, &t2).map_err(|m| ("via-slpp:frame-accessor".to_string(), format!("Game::frame({}) differs from transpose_one: {}", i, m)))?;
			}
		}
		Ok(())
	});
	match r {
		Ok(Ok(())) => {}
		Ok(Err((k, m))) => out.viol = viol("model", p, &k, m),
		Err(pn) => out.viol = viol("model", p, &pn.key(), format!("panic while inspecting the parsed game: {}", pn.msg)),
	}
	out
}
