//! The reference recorder: emits a well-formed replay from an abstract description, in the
//! recorder's canonical order, together with the expectation (what each row must contain).

#![allow(dead_code)]

use crate::spec::{self, gs, Kind};
use crate::ubj::{self, Meta};

#[derive(Clone, Copy, Debug, PartialEq, Eq, Hash)]
pub struct PortCfg {
	pub port: u8, // 0..3
	pub ics: bool,
	pub ptype: u8, // 0 human, 1 cpu, 2 demo
}

#[derive(Clone, Copy, Debug, PartialEq, Eq, Hash)]
pub enum Fill {
	A,
	B,
	Zero,
	Ones,
	Special,
}

pub const SPECIALS: [u32; 8] = [
	0x7FA0_0001, // sNaN
	0xFFC1_2345, // qNaN with payload, negative
	0x0000_0000, // +0
	0x8000_0000, // -0
	0x7F80_0000, // +inf
	0xFF80_0000, // -inf
	0x0000_0001, // smallest denormal
	0x807F_FFFF, // largest negative denormal
];

#[derive(Clone, Debug, PartialEq, Eq, Hash)]
pub struct AbsFrame {
	pub id: i32,
	/// per entry of `ports`: [leader present, follower present] (follower ignored unless ics)
	pub present: Vec<[bool; 2]>,
	pub items: usize,
}

#[derive(Clone, Copy, Debug, PartialEq, Eq, Hash)]
pub enum Gecko {
	None,
	/// total live size in bytes; blocks = ceil(live/512); padding bytes zero or non-zero
	Live { live: u32, nonzero_pad: bool },
}

#[derive(Clone, Debug, PartialEq, Eq, Hash)]
pub struct AbsReplay {
	pub ver: (u8, u8, u8),
	pub ports: Vec<PortCfg>,
	pub teams: bool,
	pub gecko: Gecko,
	pub frames: Vec<AbsFrame>,
	pub ends: u8, // 0, 1, 2
	pub metadata: Option<Meta>,
	pub fill: Fill,
}

impl AbsReplay {
	pub fn v2(&self) -> (u8, u8) {
		(self.ver.0, self.ver.1)
	}
	pub fn describe(&self) -> String {
		let ports: Vec<String> = self
			.ports
			.iter()
			.map(|p| format!("P{}{}{}", p.port + 1, if p.ics { "ics" } else { "" }, ["h", "c", "d"][p.ptype as usize % 3]))
			.collect();
		let frames: Vec<String> = self
			.frames
			.iter()
			.map(|f| {
				let pres: String = f
					.present
					.iter()
					.zip(&self.ports)
					.map(|(p, c)| match (p[0], c.ics, p[1]) {
						(true, false, _) => "L".to_string(),
						(false, false, _) => "-".to_string(),
						(l, true, fo) => format!("{}{}", if l { "L" } else { "-" }, if fo { "F" } else { "-" }),
					})
					.collect::<Vec<_>>()
					.join("|");
				format!("{}[{}]i{}", f.id, pres, f.items)
			})
			.collect();
		format!(
			"v{}.{}.{} ports={} teams={} gecko={:?} frames=[{}] ends={} meta={} fill={:?}",
			self.ver.0,
			self.ver.1,
			self.ver.2,
			ports.join(","),
			self.teams,
			self.gecko,
			frames.join(" "),
			self.ends,
			match &self.metadata {
				None => "none".to_string(),
				Some(m) => format!("{}keys", m.len()),
			},
			self.fill
		)
	}
}

#[derive(Clone, Copy, Debug, PartialEq, Eq, Hash)]
pub enum Tag {
	GameStart,
	Splitter { n: usize },
	FStart { row: usize },
	Pre { row: usize, pi: usize, fo: bool },
	Post { row: usize, pi: usize, fo: bool },
	Item { row: usize, n: usize },
	FEnd { row: usize },
	GameEnd { n: usize },
	Unknown,
	Junk,
}

#[derive(Clone, Debug, PartialEq, Eq)]
pub struct Ev {
	pub code: u8,
	pub payload: Vec<u8>,
	pub tag: Tag,
}

/// A replay as a sequence of events: what the structural mutators operate on.
#[derive(Clone, Debug, PartialEq, Eq)]
pub struct Doc {
	pub table: Vec<(u8, u16)>,
	pub events: Vec<Ev>,
	/// bytes appended inside the raw element after the last event (not an event)
	pub raw_junk: Vec<u8>,
	/// the element after raw (`U\x08metadata{...}`), if any
	pub metadata: Option<Vec<u8>>,
	pub raw_len_override: Option<u32>,
	/// bytes after the top-level closing brace
	pub trailing: Vec<u8>,
}

pub const SIGNATURE: [u8; 11] = [0x7b, 0x55, 0x03, 0x72, 0x61, 0x77, 0x5b, 0x24, 0x55, 0x23, 0x6c];

impl Doc {
	pub fn table_bytes(&self) -> Vec<u8> {
		let mut out = vec![0x35, (self.table.len() * 3 + 1) as u8];
		for (c, s) in &self.table {
			out.push(*c);
			out.extend_from_slice(&s.to_be_bytes());
		}
		out
	}
	pub fn raw_len(&self) -> usize {
		2 + 3 * self.table.len()
			+ self.events.iter().map(|e| 1 + e.payload.len()).sum::<usize>()
			+ self.raw_junk.len()
	}
	pub fn assemble(&self) -> Vec<u8> {
		let mut out = SIGNATURE.to_vec();
		let rl = self.raw_len_override.unwrap_or(self.raw_len() as u32);
		out.extend_from_slice(&rl.to_be_bytes());
		out.extend_from_slice(&self.table_bytes());
		for e in &self.events {
			out.push(e.code);
			out.extend_from_slice(&e.payload);
		}
		out.extend_from_slice(&self.raw_junk);
		if let Some(m) = &self.metadata {
			out.extend_from_slice(m);
		}
		out.push(b'}');
		out.extend_from_slice(&self.trailing);
		out
	}
	/// file offsets at which each event starts (index i = start of events[i]); the last entry is
	/// the end of the raw element.
	pub fn boundaries(&self) -> Vec<usize> {
		let mut off = 15 + 2 + 3 * self.table.len();
		let mut out = vec![];
		for e in &self.events {
			out.push(off);
			off += 1 + e.payload.len();
		}
		out.push(off + self.raw_junk.len());
		out
	}
	pub fn size_of(&self, code: u8) -> Option<u16> {
		self.table.iter().find(|(c, _)| *c == code).map(|(_, s)| *s)
	}
}

// ---------------------------------------------------------------------------- fill patterns

/// byte at payload offset k of event instance number `serial`
pub fn fill_byte(fill: Fill, serial: usize, k: usize) -> u8 {
	match fill {
		Fill::A | Fill::Special => (3 * k + 7 * serial + 1) as u8,
		Fill::B => !((3 * k + 7 * serial + 1) as u8),
		Fill::Zero => 0,
		Fill::Ones => 0xFF,
	}
}

fn frame_event(kind: Kind, v: (u8, u8), fill: Fill, serial: usize, id: i32, port: u8, fo: bool) -> Vec<u8> {
	let n = spec::frame_payload_size(kind, v);
	let mut p: Vec<u8> = (0..n).map(|k| fill_byte(fill, serial, k)).collect();
	if fill == Fill::Special {
		let mut n_f = 0;
		for row in spec::layout(kind) {
			if row.ty == spec::Ty::F32 && spec::gte(v, row.since) {
				let bits = SPECIALS[(serial + n_f) % SPECIALS.len()];
				p[row.spec_off - 1..row.spec_off + 3].copy_from_slice(&bits.to_be_bytes());
				n_f += 1;
			}
		}
	}
	p[0..4].copy_from_slice(&id.to_be_bytes());
	if kind.header() == 6 {
		p[4] = port;
		p[5] = fo as u8;
	}
	p
}

// ---------------------------------------------------------------------------- Game Start / End

pub const ICS: u8 = 14;

/// Reference Game Start block. Unconstrained bytes follow the fill pattern; constrained
/// ones (type, UCF, strings, language) get valid values.
pub fn game_start_block(ver: (u8, u8, u8), ports: &[PortCfg], teams: bool, fill: Fill) -> Vec<u8> {
	let v = (ver.0, ver.1);
	let n = spec::game_start_size(v);
	// for the block, Special behaves like A
	let bf = match fill {
		Fill::Special => Fill::A,
		f => f,
	};
	let mut b: Vec<u8> = (0..n).map(|k| fill_byte(bf, 0x55, k / 3 + k)).collect();
	b[0] = ver.0;
	b[1] = ver.1;
	b[2] = ver.2;
	b[gs::TEAMS] = teams as u8;
	for p in 0..6usize {
		let o = gs::PLAYERS + p * gs::PLAYER_STRIDE;
		let cfg = ports.iter().find(|c| c.port as usize == p);
		match cfg {
			Some(c) => {
				b[o + gs::pl::TYPE] = c.ptype;
				if c.ics {
					b[o + gs::pl::CHARACTER] = ICS;
				} else if b[o + gs::pl::CHARACTER] == ICS {
					b[o + gs::pl::CHARACTER] = 2;
				}
			}
			None => {
				b[o + gs::pl::TYPE] = 3;
			}
		}
	}
	let ascii = |b: &mut [u8], s: &[u8]| {
		for (i, x) in b.iter_mut().enumerate() {
			*x = if i < s.len() { s[i] } else { 0 };
		}
	};
	if n >= 352 {
		for p in 0..4usize {
			let o = gs::UCF + 8 * p;
			b[o..o + 4].copy_from_slice(&((p as u32) % 3).to_be_bytes());
			b[o + 4..o + 8].copy_from_slice(&((p as u32 + 1) % 3).to_be_bytes());
		}
	}
	if n >= 416 {
		for p in 0..4usize {
			let o = gs::NAME_TAG + 16 * p;
			ascii(&mut b[o..o + 16], format!("TAG{}", p).as_bytes());
		}
	}
	if n >= 584 {
		for p in 0..4usize {
			let o = gs::DISPLAY_NAME + 31 * p;
			ascii(&mut b[o..o + 31], format!("Player Number {}", p).as_bytes());
			let o = gs::CONNECT_CODE + 10 * p;
			// full-width '#' in Shift-JIS is 0x81 0x94
			let mut code = format!("AB{}", p).into_bytes();
			code.extend_from_slice(&[0x81, 0x94]);
			code.extend_from_slice(format!("12{}", p).as_bytes());
			ascii(&mut b[o..o + 10], &code);
		}
	}
	if n >= 700 {
		for p in 0..4usize {
			let o = gs::SUID + 29 * p;
			ascii(&mut b[o..o + 29], format!("uid-{}-abcdefghij", p).as_bytes());
		}
	}
	if n >= 701 {
		b[gs::LANGUAGE] = 1;
	}
	if n >= 760 {
		ascii(&mut b[gs::MATCH_ID..gs::MATCH_ID + 51], b"mode.unranked-2022-12-20T06:52:39.18-0");
	}
	b
}

pub fn game_end_block(v: (u8, u8), ports: &[PortCfg], fill: Fill) -> Vec<u8> {
	let n = spec::game_end_size(v);
	let mut b = vec![0u8; n];
	b[0] = match fill {
		Fill::A | Fill::Special => 2,
		Fill::B => 7,
		Fill::Zero => 0,
		Fill::Ones => 3,
	};
	if n >= 2 {
		b[1] = match fill {
			Fill::A | Fill::Special => 255,
			Fill::B => 1,
			Fill::Zero => 0,
			Fill::Ones => 255,
		};
	}
	if n >= 6 {
		for p in 0..4usize {
			b[2 + p] = match ports.iter().position(|c| c.port as usize == p) {
				Some(i) => i as u8,
				None => 0xFF,
			};
		}
	}
	b
}

// ---------------------------------------------------------------------------- expectation

#[derive(Clone, Debug, Default)]
pub struct ExpChar {
	pub pre: Vec<u8>,
	pub post: Vec<u8>,
}

#[derive(Clone, Debug, Default)]
pub struct ExpRow {
	pub id: i32,
	pub start: Option<Vec<u8>>,
	pub end: Option<Vec<u8>>,
	/// per entry of ports: [leader, follower]
	pub chars: Vec<[Option<ExpChar>; 2]>,
	pub items: Vec<Vec<u8>>,
}

#[derive(Clone, Debug)]
pub struct Recorded {
	pub doc: Doc,
	pub rows: Vec<ExpRow>,
	pub start_block: Vec<u8>,
	pub end_block: Option<Vec<u8>>,
	pub gecko_bytes: Option<(Vec<u8>, u32)>,
}

pub fn table_for(abs: &AbsReplay, start_len: usize, end_len: usize) -> Vec<(u8, u16)> {
	let v = abs.v2();
	let mut t: Vec<(u8, u16)> = vec![
		(0x36, start_len as u16),
		(0x37, spec::frame_payload_size(Kind::Pre, v) as u16),
		(0x38, spec::frame_payload_size(Kind::Post, v) as u16),
		(0x39, end_len as u16),
	];
	if spec::gte(v, (2, 2)) {
		t.push((0x3A, spec::frame_payload_size(Kind::Start, v) as u16));
	}
	if spec::gte(v, (3, 0)) {
		t.push((0x3B, spec::frame_payload_size(Kind::Item, v) as u16));
		t.push((0x3C, spec::frame_payload_size(Kind::End, v) as u16));
	}
	if let Gecko::Live { live, .. } = abs.gecko {
		t.push((0x3D, live as u16));
		t.push((0x10, 516));
	}
	t
}

pub fn record(abs: &AbsReplay) -> Recorded {
	let v = abs.v2();
	let regime = spec::regime(v);
	let start_block = game_start_block(abs.ver, &abs.ports, abs.teams, abs.fill);
	let end_block = game_end_block(v, &abs.ports, abs.fill);
	let table = table_for(abs, start_block.len(), end_block.len());
	let mut events = vec![Ev { code: 0x36, payload: start_block.clone(), tag: Tag::GameStart }];
	let mut gecko_bytes = None;
	if let Gecko::Live { live, nonzero_pad } = abs.gecko {
		assert!(spec::gte(v, (3, 3)), "gecko blocks exist from 3.3");
		assert!(live > 0 && live as u16 != 0);
		let blocks = (live as usize + 511) / 512;
		let mut all = vec![];
		for n in 0..blocks {
			let this = std::cmp::min(512, live as usize - n * 512);
			let mut p = vec![0u8; 516];
			for k in 0..512 {
				p[k] = if k < this || nonzero_pad { fill_byte(Fill::A, 0x90 + n, k) | 1 } else { 0 };
			}
			p[512..514].copy_from_slice(&(this as u16).to_be_bytes());
			p[514] = 0x3D;
			p[515] = (n + 1 == blocks) as u8;
			all.extend_from_slice(&p[..512]);
			events.push(Ev { code: 0x10, payload: p, tag: Tag::Splitter { n } });
		}
		gecko_bytes = Some((all, live));
	}
	let mut rows = vec![];
	let mut serial = 0usize;
	let next = |s: &mut usize| {
		*s += 1;
		*s
	};
	for (row, f) in abs.frames.iter().enumerate() {
		let mut er = ExpRow { id: f.id, chars: vec![[None, None]; abs.ports.len()], ..Default::default() };
		if regime >= 1 {
			let p = frame_event(Kind::Start, v, abs.fill, next(&mut serial), f.id, 0, false);
			er.start = Some(p.clone());
			events.push(Ev { code: 0x3A, payload: p, tag: Tag::FStart { row } });
		}
		for (pi, c) in abs.ports.iter().enumerate() {
			for fo in [false, true] {
				if fo && !c.ics {
					continue;
				}
				if f.present[pi][fo as usize] {
					let p = frame_event(Kind::Pre, v, abs.fill, next(&mut serial), f.id, c.port, fo);
					er.chars[pi][fo as usize] = Some(ExpChar { pre: p.clone(), post: vec![] });
					events.push(Ev { code: 0x37, payload: p, tag: Tag::Pre { row, pi, fo } });
				}
			}
		}
		if regime >= 2 {
			for n in 0..f.items {
				let p = frame_event(Kind::Item, v, abs.fill, next(&mut serial), f.id, 0, false);
				er.items.push(p.clone());
				events.push(Ev { code: 0x3B, payload: p, tag: Tag::Item { row, n } });
			}
		} else {
			assert_eq!(f.items, 0, "items exist from 3.0");
		}
		for (pi, c) in abs.ports.iter().enumerate() {
			for fo in [false, true] {
				if fo && !c.ics {
					continue;
				}
				if f.present[pi][fo as usize] {
					let p = frame_event(Kind::Post, v, abs.fill, next(&mut serial), f.id, c.port, fo);
					er.chars[pi][fo as usize].as_mut().unwrap().post = p.clone();
					events.push(Ev { code: 0x38, payload: p, tag: Tag::Post { row, pi, fo } });
				}
			}
		}
		if regime >= 2 {
			let p = frame_event(Kind::End, v, abs.fill, next(&mut serial), f.id, 0, false);
			er.end = Some(p.clone());
			events.push(Ev { code: 0x3C, payload: p, tag: Tag::FEnd { row } });
		}
		rows.push(er);
	}
	for n in 0..abs.ends as usize {
		events.push(Ev { code: 0x39, payload: end_block.clone(), tag: Tag::GameEnd { n } });
	}
	let metadata = abs.metadata.as_ref().map(ubj::metadata_element);
	Recorded {
		doc: Doc { table, events, raw_junk: vec![], metadata, raw_len_override: None, trailing: vec![] },
		rows,
		start_block,
		end_block: if abs.ends > 0 { Some(end_block) } else { None },
		gecko_bytes,
	}
}

// ---------------------------------------------------------------------------- alphabets

pub fn all_port_configs() -> Vec<Vec<PortCfg>> {
	// 3^4 = 81: each port absent / plain / ICs
	let mut out = vec![];
	for code in 0..81u32 {
		let mut c = code;
		let mut ports = vec![];
		for p in 0..4u8 {
			match c % 3 {
				1 => ports.push(PortCfg { port: p, ics: false, ptype: (p % 3) }),
				2 => ports.push(PortCfg { port: p, ics: true, ptype: ((p + 1) % 3) }),
				_ => {}
			}
			c /= 3;
		}
		out.push(ports);
	}
	out
}

pub fn pc(port: u8, ics: bool) -> PortCfg {
	PortCfg { port, ics, ptype: 0 }
}

pub fn small_port_configs() -> Vec<Vec<PortCfg>> {
	vec![
		vec![pc(0, false)],
		vec![pc(0, false), pc(1, false)],
		vec![pc(0, true), pc(2, false)],
		vec![pc(1, false), PortCfg { port: 3, ics: true, ptype: 1 }],
		vec![pc(0, false), pc(1, false), pc(2, false), pc(3, false)],
		vec![pc(0, true), pc(1, true), pc(2, true), pc(3, true)],
	]
}

pub fn default_meta() -> Meta {
	use crate::ubj::MVal::*;
	vec![
		("startAt".into(), Str("2020-08-01T21:49:01Z".into())),
		("lastFrame".into(), Int(11)),
		(
			"players".into(),
			Map(vec![(
				"0".into(),
				Map(vec![
					("names".into(), Map(vec![("netplay".into(), Str("abc".into())), ("code".into(), Str("ABC#123".into()))])),
					("characters".into(), Map(vec![("18".into(), Int(-5))])),
				]),
			)]),
		),
		("playedOn".into(), Str("dolphin".into())),
	]
}

/// number of characters (leader + followers) of a port configuration
pub fn n_chars(ports: &[PortCfg]) -> usize {
	ports.iter().map(|p| 1 + p.ics as usize).sum()
}

/// A default (all present, no items, consecutive ids from -123) history of `n` frames.
pub fn default_frames(ports: &[PortCfg], n: usize) -> Vec<AbsFrame> {
	(0..n)
		.map(|i| AbsFrame { id: -123 + i as i32, present: vec![[true, true]; ports.len()], items: 0 })
		.collect()
}

pub fn base_replay(ver: (u8, u8), ports: Vec<PortCfg>, nframes: usize) -> AbsReplay {
	let frames = default_frames(&ports, nframes);
	AbsReplay {
		ver: (ver.0, ver.1, 0),
		ports,
		teams: false,
		gecko: Gecko::None,
		frames,
		ends: 1,
		metadata: Some(default_meta()),
		fill: Fill::A,
	}
}
