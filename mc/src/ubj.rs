//! Independent minimal UBJSON subset encoder/decoder for metadata trees
//! (maps of string / int32 / map), with key order preserved.

#![allow(dead_code)]

#[derive(Clone, Debug, PartialEq, Eq, Hash)]
pub enum MVal {
	Str(String),
	Int(i32),
	Map(Meta),
}

pub type Meta = Vec<(String, MVal)>;

fn enc_str(out: &mut Vec<u8>, s: &str) {
	assert!(s.len() <= 255);
	out.push(b'U');
	out.push(s.len() as u8);
	out.extend_from_slice(s.as_bytes());
}

/// entries of a map, *without* the closing brace
pub fn enc_entries(m: &Meta, out: &mut Vec<u8>) {
	for (k, v) in m {
		enc_str(out, k);
		match v {
			MVal::Str(s) => {
				out.push(b'S');
				enc_str(out, s);
			}
			MVal::Int(i) => {
				out.push(b'l');
				out.extend_from_slice(&i.to_be_bytes());
			}
			MVal::Map(m) => {
				out.push(b'{');
				enc_entries(m, out);
				out.push(b'}');
			}
		}
	}
}

/// The tail of a .slp file that follows the raw element: `U\x08metadata{ ... }` (without
/// the top-level closing brace).
pub fn metadata_element(m: &Meta) -> Vec<u8> {
	let mut out = b"U\x08metadata{".to_vec();
	enc_entries(m, &mut out);
	out.push(b'}');
	out
}

/// Convert a serde_json map (as peppi exposes metadata) into the reference tree, in the map's
/// iteration order. Returns Err for value kinds outside the subset.
pub fn from_json(m: &serde_json::Map<String, serde_json::Value>) -> Result<Meta, String> {
	let mut out = vec![];
	for (k, v) in m {
		let mv = match v {
			serde_json::Value::String(s) => MVal::Str(s.clone()),
			serde_json::Value::Number(n) => {
				let i = n.as_i64().ok_or_else(|| format!("non-integer number {}", n))?;
				MVal::Int(i32::try_from(i).map_err(|_| format!("integer {} out of i32", i))?)
			}
			serde_json::Value::Object(o) => MVal::Map(from_json(o)?),
			other => return Err(format!("unexpected JSON value {:?}", other)),
		};
		out.push((k.clone(), mv));
	}
	Ok(out)
}

// ------------------------------------------------------------------------------------
// Order-preserving mini JSON tokenizer (for metadata.json inside .slpp): does not go
// through serde's map type, so key order is observed as written.
// ------------------------------------------------------------------------------------

#[derive(Clone, Debug, PartialEq)]
pub enum J {
	Null,
	Bool(bool),
	Num(String),
	Str(String),
	Arr(Vec<J>),
	Obj(Vec<(String, J)>),
}

pub fn parse_json(s: &[u8]) -> Result<J, String> {
	let mut p = JP { s, i: 0 };
	p.ws();
	let v = p.val()?;
	p.ws();
	if p.i != s.len() {
		return Err(format!("trailing data at {}", p.i));
	}
	Ok(v)
}

struct JP<'a> {
	s: &'a [u8],
	i: usize,
}

impl<'a> JP<'a> {
	fn ws(&mut self) {
		while self.i < self.s.len() && matches!(self.s[self.i], b' ' | b'\n' | b'\r' | b'\t') {
			self.i += 1;
		}
	}
	fn peek(&self) -> Option<u8> {
		self.s.get(self.i).copied()
	}
	fn expect(&mut self, lit: &[u8]) -> Result<(), String> {
		if self.s[self.i..].starts_with(lit) {
			self.i += lit.len();
			Ok(())
		} else {
			Err(format!("expected {:?} at {}", String::from_utf8_lossy(lit), self.i))
		}
	}
	fn val(&mut self) -> Result<J, String> {
		match self.peek().ok_or("eof")? {
			b'n' => self.expect(b"null").map(|_| J::Null),
			b't' => self.expect(b"true").map(|_| J::Bool(true)),
			b'f' => self.expect(b"false").map(|_| J::Bool(false)),
			b'"' => self.string().map(J::Str),
			b'[' => {
				self.i += 1;
				let mut v = vec![];
				self.ws();
				if self.peek() == Some(b']') {
					self.i += 1;
					return Ok(J::Arr(v));
				}
				loop {
					self.ws();
					v.push(self.val()?);
					self.ws();
					match self.peek() {
						Some(b',') => self.i += 1,
						Some(b']') => {
							self.i += 1;
							return Ok(J::Arr(v));
						}
						_ => return Err(format!("bad array at {}", self.i)),
					}
				}
			}
			b'{' => {
				self.i += 1;
				let mut v = vec![];
				self.ws();
				if self.peek() == Some(b'}') {
					self.i += 1;
					return Ok(J::Obj(v));
				}
				loop {
					self.ws();
					let k = self.string()?;
					self.ws();
					self.expect(b":")?;
					self.ws();
					let x = self.val()?;
					v.push((k, x));
					self.ws();
					match self.peek() {
						Some(b',') => self.i += 1,
						Some(b'}') => {
							self.i += 1;
							return Ok(J::Obj(v));
						}
						_ => return Err(format!("bad object at {}", self.i)),
					}
				}
			}
			_ => {
				let st = self.i;
				while self.i < self.s.len()
					&& matches!(self.s[self.i], b'0'..=b'9' | b'-' | b'+' | b'.' | b'e' | b'E')
				{
					self.i += 1;
				}
				if st == self.i {
					return Err(format!("bad value at {}", st));
				}
				Ok(J::Num(String::from_utf8_lossy(&self.s[st..self.i]).into_owned()))
			}
		}
	}
	fn string(&mut self) -> Result<String, String> {
		if self.peek() != Some(b'"') {
			return Err(format!("expected string at {}", self.i));
		}
		self.i += 1;
		let mut out: Vec<u8> = vec![];
		loop {
			let c = self.peek().ok_or("eof in string")?;
			self.i += 1;
			match c {
				b'"' => break,
				b'\\' => {
					let e = self.peek().ok_or("eof in escape")?;
					self.i += 1;
					match e {
						b'"' => out.push(b'"'),
						b'\\' => out.push(b'\\'),
						b'/' => out.push(b'/'),
						b'b' => out.push(8),
						b'f' => out.push(12),
						b'n' => out.push(b'\n'),
						b'r' => out.push(b'\r'),
						b't' => out.push(b'\t'),
						b'u' => {
							let mut cp = self.hex4()?;
							if (0xD800..0xDC00).contains(&cp) {
								self.expect(b"\\u")?;
								let lo = self.hex4()?;
								cp = 0x10000 + ((cp - 0xD800) << 10) + (lo - 0xDC00);
							}
							let ch = char::from_u32(cp).ok_or("bad code point")?;
							let mut b = [0u8; 4];
							out.extend_from_slice(ch.encode_utf8(&mut b).as_bytes());
						}
						_ => return Err("bad escape".into()),
					}
				}
				c => out.push(c),
			}
		}
		String::from_utf8(out).map_err(|e| e.to_string())
	}
	fn hex4(&mut self) -> Result<u32, String> {
		let h = std::str::from_utf8(self.s.get(self.i..self.i + 4).ok_or("eof in \\u")?)
			.map_err(|e| e.to_string())?;
		self.i += 4;
		u32::from_str_radix(h, 16).map_err(|e| e.to_string())
	}
}

/// metadata tree -> the J value that metadata.json must tokenise to
pub fn meta_to_j(m: &Meta) -> J {
	J::Obj(
		m.iter()
			.map(|(k, v)| {
				(
					k.clone(),
					match v {
						MVal::Str(s) => J::Str(s.clone()),
						MVal::Int(i) => J::Num(i.to_string()),
						MVal::Map(m) => meta_to_j(m),
					},
				)
			})
			.collect(),
	)
}

/// serde_json::Value -> J in the value's own iteration order (used where order is not the point)
pub fn value_to_j(v: &serde_json::Value) -> J {
	match v {
		serde_json::Value::Null => J::Null,
		serde_json::Value::Bool(b) => J::Bool(*b),
		serde_json::Value::Number(n) => J::Num(n.to_string()),
		serde_json::Value::String(s) => J::Str(s.clone()),
		serde_json::Value::Array(a) => J::Arr(a.iter().map(value_to_j).collect()),
		serde_json::Value::Object(o) => {
			J::Obj(o.iter().map(|(k, v)| (k.clone(), value_to_j(v))).collect())
		}
	}
}

// ------------------------------------------------------------------------------------
// independent decoder of the subset (for expectations derived from the bytes)
// ------------------------------------------------------------------------------------

/// decodes map entries starting at `pos` until the closing brace; returns (tree, offset after '}')
pub fn dec_entries(b: &[u8], mut pos: usize) -> Result<(Meta, usize), String> {
	let mut out = vec![];
	loop {
		match *b.get(pos).ok_or("eof in map")? {
			b'}' => return Ok((out, pos + 1)),
			b'U' => {
				let l = *b.get(pos + 1).ok_or("eof")? as usize;
				let k = std::str::from_utf8(b.get(pos + 2..pos + 2 + l).ok_or("eof in key")?).map_err(|e| e.to_string())?.to_string();
				pos += 2 + l;
				match *b.get(pos).ok_or("eof in value")? {
					b'S' => {
						if b.get(pos + 1) != Some(&b'U') {
							return Err("string length marker".into());
						}
						let l = *b.get(pos + 2).ok_or("eof")? as usize;
						let s = std::str::from_utf8(b.get(pos + 3..pos + 3 + l).ok_or("eof in string")?).map_err(|e| e.to_string())?.to_string();
						pos += 3 + l;
						out.push((k, MVal::Str(s)));
					}
					b'l' => {
						let x = b.get(pos + 1..pos + 5).ok_or("eof in int")?;
						out.push((k, MVal::Int(i32::from_be_bytes([x[0], x[1], x[2], x[3]]))));
						pos += 5;
					}
					b'{' => {
						let (m, np) = dec_entries(b, pos + 1)?;
						pos = np;
						out.push((k, MVal::Map(m)));
					}
					c => return Err(format!("value type {:#x}", c)),
				}
			}
			c => return Err(format!("key type {:#x}", c)),
		}
	}
}
