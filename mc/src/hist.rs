//! Deviation-bounded enumeration of frame histories (iterative context bounding transplanted
//! to a sequential program: a deviation is an absent character, an item, a non-default id step).

#![allow(dead_code)]

use crate::rec::{AbsFrame, PortCfg};

#[derive(Clone, Debug)]
pub struct HistSpace {
	pub regime: u8,
	pub ports: Vec<PortCfg>,
	pub max_frames: usize,
	pub min_frames: usize,
	pub budget: usize,
	/// presence patterns are not charged against the budget (all patterns enumerated)
	pub free_presence: bool,
	pub max_items: usize,
}

/// All histories of the space, simplest first (by number of frames, then deviation count).
pub fn histories(sp: &HistSpace) -> Vec<(Vec<AbsFrame>, usize)> {
	let mut out = vec![];
	for nf in sp.min_frames..=sp.max_frames {
		let mut cur: Vec<AbsFrame> = vec![];
		rec(sp, nf, sp.budget, 0, &mut cur, &mut out);
	}
	out.sort_by_key(|(h, d)| (*d, h.len()));
	out
}

fn char_slots(ports: &[PortCfg]) -> Vec<(usize, usize)> {
	let mut v = vec![];
	for (pi, p) in ports.iter().enumerate() {
		v.push((pi, 0));
		if p.ics {
			v.push((pi, 1));
		}
	}
	v
}

fn rec(sp: &HistSpace, nf: usize, budget: usize, used: usize, cur: &mut Vec<AbsFrame>, out: &mut Vec<(Vec<AbsFrame>, usize)>) {
	if cur.len() == nf {
		out.push((cur.clone(), used));
		return;
	}
	let prev = cur.last().map(|f| f.id);
	// id steps: default +1; rollback 0; deeper -1; gap +2 (only where a Frame Start carries the id)
	let mut steps: Vec<(i32, usize)> = vec![(1, 0)];
	if sp.regime >= 1 && prev.is_some() {
		steps.push((0, 1));
		steps.push((-1, 1));
		steps.push((2, 1));
	}
	let slots = char_slots(&sp.ports);
	for (step, c_step) in steps {
		if c_step > budget {
			continue;
		}
		let id = match prev {
			None => -123,
			Some(p) => p + step,
		};
		if id < -123 {
			continue;
		}
		let max_items = if sp.regime >= 2 { sp.max_items } else { 0 };
		for items in 0..=max_items {
			let c_items = items;
			if c_step + c_items > budget {
				continue;
			}
			let rem = budget - c_step - c_items;
			// presence patterns: subsets of absent characters
			let n = slots.len();
			for mask in 0u32..(1u32 << n) {
				let absent = mask.count_ones() as usize;
				let cost = if sp.free_presence { 0 } else { absent };
				if cost > rem {
					continue;
				}
				if sp.regime == 0 && absent == n {
					continue; // a frame without any event cannot be expressed before 2.2
				}
				let mut present = vec![[true, true]; sp.ports.len()];
				for (k, (pi, fo)) in slots.iter().enumerate() {
					if mask >> k & 1 == 1 {
						present[*pi][*fo] = false;
					}
				}
				cur.push(AbsFrame { id, present, items });
				rec(sp, nf, budget - c_step - c_items - cost, used + c_step + c_items + absent.min(if sp.free_presence { usize::MAX } else { absent }), cur, out);
				cur.pop();
			}
		}
	}
}
