//! Explicit-state breadth-first exploration of the frame open/close protocol.
//!
//! A state is the event history reaching it (ParseState is not Clone, so states are rebuilt
//! by re-execution); states are deduplicated on a canonical abstract key, so the search runs
//! to *closure* - every reachable abstract state of the parser for a configuration - instead
//! of to a fixed number of frames. Every transition is one real `parse_event` call, and the
//! state after it is compared with the reference walker.
//!
//! Soundness of the key (merged states must have the same futures): the parser's next step
//! consults only the version, the port->slot map, whether a frame is open and its id relative
//! to the next event's id, which characters already have pre/post data in the open frame
//! (column lengths), whether a character's validity bitmap exists yet, the item count of the
//! open frame, the splitter accumulator and whether Game End was seen. The key keeps all of
//! these (counts that only grow are capped above the largest value any branch distinguishes).
//! Because a wrong abstraction hides bugs silently, the first few *different* histories that
//! reach an already-known key are executed and judged too (`revisits`), not skipped.

#![allow(dead_code)]

use std::collections::{HashMap, VecDeque};
use std::sync::Arc;

use crate::inc::*;
use crate::rec::*;
use crate::spec::{self, Kind};
use crate::util::*;

#[derive(Clone, Copy, Debug, PartialEq, Eq, Hash)]
pub enum AEv {
	/// open a frame; id step relative to the previous frame's id (+1, 0, -1, +2)
	FStart(i8),
	Pre(u8),  // character slot
	Post(u8), // character slot
	Item,
	FEnd,
	GameEnd,
}

#[derive(Clone, Copy, Debug, PartialEq, Eq, Hash)]
enum Phase {
	Between,
	/// inside a frame, before/among pre events: next slot that may still get a pre
	Pres(u8),
	Items,
	/// among post events: next slot index (into present list order) to get a post
	Posts(u8),
	Ended,
}

#[derive(Clone, Debug, PartialEq, Eq, Hash)]
struct Abs {
	phase: Phase,
	/// characters with a pre in the open frame (bitmask over slots)
	present: u16,
	items: u8,
	ever_absent: u16,
	/// rows already closed, capped
	rows: u8,
	/// row count minus id distance, clamped (how much rollback has happened)
	offset: i8,
	/// a frame is open in the pre-2.2 sense (opened by a pre)
	open: bool,
}

pub struct Cfg {
	pub ver: (u8, u8),
	pub ports: Vec<PortCfg>,
	pub max_items: u8,
	pub rollbacks: bool,
}

impl Cfg {
	fn slots(&self) -> Vec<(usize, bool)> {
		let mut v = vec![];
		for (pi, p) in self.ports.iter().enumerate() {
			v.push((pi, false));
			if p.ics {
				v.push((pi, true));
			}
		}
		v
	}
}

fn enabled(cfg: &Cfg, a: &Abs, nslots: u8, regime: u8) -> Vec<AEv> {
	let mut out = vec![];
	match a.phase {
		Phase::Ended => {}
		Phase::Between => {
			out.push(AEv::GameEnd);
			if regime >= 1 {
				out.push(AEv::FStart(1));
				if cfg.rollbacks && a.rows > 0 {
					out.push(AEv::FStart(0));
					out.push(AEv::FStart(-1));
					out.push(AEv::FStart(2));
				}
			} else {
				// before 2.2 the first pre of the next id opens the frame
				for s in 0..nslots {
					out.push(AEv::Pre(s));
				}
			}
		}
		Phase::Pres(next) => {
			for s in next..nslots {
				out.push(AEv::Pre(s));
			}
			// leave the pre section: items (>= 3.0), posts, or close an empty frame
			if regime >= 2 && a.items < cfg.max_items {
				out.push(AEv::Item);
			}
			if a.present != 0 {
				out.push(AEv::Post(first_present(a.present, 0)));
			} else {
				close_options(cfg, a, nslots, regime, &mut out);
			}
		}
		Phase::Items => {
			if a.items < cfg.max_items {
				out.push(AEv::Item);
			}
			if a.present != 0 {
				out.push(AEv::Post(first_present(a.present, 0)));
			} else {
				close_options(cfg, a, nslots, regime, &mut out);
			}
		}
		Phase::Posts(next) => {
			// canonical order: posts of the present characters in slot order
			match next_present(a.present, next) {
				Some(s) => out.push(AEv::Post(s)),
				None => close_options(cfg, a, nslots, regime, &mut out),
			}
		}
	}
	out
}

fn close_options(cfg: &Cfg, a: &Abs, nslots: u8, regime: u8, out: &mut Vec<AEv>) {
	if regime >= 2 {
		out.push(AEv::FEnd);
	} else {
		// the frame is closed by whatever opens the next one, or by Game End
		out.push(AEv::GameEnd);
		if regime == 1 {
			out.push(AEv::FStart(1));
			if cfg.rollbacks {
				out.push(AEv::FStart(0));
				out.push(AEv::FStart(-1));
				out.push(AEv::FStart(2));
			}
		} else if a.present != 0 {
			for s in 0..nslots {
				out.push(AEv::Pre(s));
			}
		}
	}
}

fn first_present(mask: u16, from: u8) -> u8 {
	(from..16).find(|s| mask >> s & 1 == 1).unwrap()
}

fn next_present(mask: u16, from: u8) -> Option<u8> {
	(from..16).find(|s| mask >> s & 1 == 1)
}

/// Replays an abstract history into (events, abstract state). The abstract state is computed
/// here, independently of the implementation.
fn build(cfg: &Cfg, hist: &[AEv]) -> (Doc, Abs, Vec<AbsFrameLite>) {
	let v = cfg.ver;
	let regime = spec::regime(v);
	let slots = cfg.slots();
	let start_block = game_start_block((v.0, v.1, 0), &cfg.ports, false, Fill::A);
	let end_block = game_end_block(v, &cfg.ports, Fill::A);
	let abs0 = AbsReplay { ver: (v.0, v.1, 0), ports: cfg.ports.clone(), teams: false, gecko: Gecko::None, frames: vec![], ends: 1, metadata: None, fill: Fill::A };
	let table = table_for(&abs0, start_block.len(), end_block.len());
	let mut events = vec![Ev { code: 0x36, payload: start_block, tag: Tag::GameStart }];
	let mut a = Abs { phase: Phase::Between, present: 0, items: 0, ever_absent: 0, rows: 0, offset: 0, open: false };
	let mut frames: Vec<AbsFrameLite> = vec![];
	let mut serial = 0usize;
	let all: u16 = (1u16 << slots.len()) - 1;
	let close = |a: &mut Abs, frames: &mut Vec<AbsFrameLite>| {
		if a.open {
			a.ever_absent |= all & !a.present;
			a.rows = (a.rows + 1).min(3);
			a.open = false;
			a.present = 0;
			a.items = 0;
			let _ = frames;
		}
	};
	let open_frame = |a: &mut Abs, frames: &mut Vec<AbsFrameLite>, step: i8| -> i32 {
		let id = match frames.last() {
			None => -123,
			Some(f) => f.id + step as i32,
		};
		frames.push(AbsFrameLite { id });
		a.open = true;
		let rows_total = frames.len() as i64;
		a.offset = ((rows_total - 1) - (id as i64 + 123)).clamp(-3, 4) as i8;
		id
	};
	for ev in hist {
		serial += 1;
		match *ev {
			AEv::FStart(step) => {
				close(&mut a, &mut frames);
				let id = open_frame(&mut a, &mut frames, step);
				events.push(Ev { code: 0x3A, payload: fe(Kind::Start, v, serial, id, 0, false), tag: Tag::FStart { row: frames.len() - 1 } });
				a.phase = Phase::Pres(0);
			}
			AEv::Pre(s) => {
				if regime == 0 && (matches!(a.phase, Phase::Between) || matches!(a.phase, Phase::Posts(_)) || (!a.open)) {
					// opens the next frame
					close(&mut a, &mut frames);
					open_frame(&mut a, &mut frames, 1);
				} else if regime == 0 && !matches!(a.phase, Phase::Pres(_)) {
					close(&mut a, &mut frames);
					open_frame(&mut a, &mut frames, 1);
				}
				let id = frames.last().unwrap().id;
				let (pi, fo) = slots[s as usize];
				events.push(Ev { code: 0x37, payload: fe(Kind::Pre, v, serial, id, cfg.ports[pi].port, fo), tag: Tag::Pre { row: frames.len() - 1, pi, fo } });
				a.present |= 1 << s;
				a.phase = Phase::Pres(s + 1);
			}
			AEv::Item => {
				let id = frames.last().unwrap().id;
				events.push(Ev { code: 0x3B, payload: fe(Kind::Item, v, serial, id, 0, false), tag: Tag::Item { row: frames.len() - 1, n: a.items as usize } });
				a.items += 1;
				a.phase = Phase::Items;
			}
			AEv::Post(s) => {
				let id = frames.last().unwrap().id;
				let (pi, fo) = slots[s as usize];
				events.push(Ev { code: 0x38, payload: fe(Kind::Post, v, serial, id, cfg.ports[pi].port, fo), tag: Tag::Post { row: frames.len() - 1, pi, fo } });
				a.phase = Phase::Posts(s + 1);
			}
			AEv::FEnd => {
				let id = frames.last().unwrap().id;
				events.push(Ev { code: 0x3C, payload: fe(Kind::End, v, serial, id, 0, false), tag: Tag::FEnd { row: frames.len() - 1 } });
				close(&mut a, &mut frames);
				a.phase = Phase::Between;
			}
			AEv::GameEnd => {
				close(&mut a, &mut frames);
				events.push(Ev { code: 0x39, payload: end_block.clone(), tag: Tag::GameEnd { n: 0 } });
				a.phase = Phase::Ended;
			}
		}
		// before 3.0 a frame whose posts are complete is, abstractly, "between" frames but still open
		if regime < 2 {
			if let Phase::Posts(n) = a.phase {
				if next_present(a.present, n).is_none() {
					// stay in Posts: close_options decides what may follow
				}
			}
		}
	}
	(Doc { table, events, raw_junk: vec![], metadata: None, raw_len_override: None, trailing: vec![] }, a, frames)
}

#[derive(Clone, Debug)]
pub struct AbsFrameLite {
	pub id: i32,
}

fn fe(kind: Kind, v: (u8, u8), serial: usize, id: i32, port: u8, fo: bool) -> Vec<u8> {
	let n = spec::frame_payload_size(kind, v);
	let mut p: Vec<u8> = (0..n).map(|k| fill_byte(Fill::A, serial, k)).collect();
	p[0..4].copy_from_slice(&id.to_be_bytes());
	if kind.header() == 6 {
		p[4] = port;
		p[5] = fo as u8;
	}
	p
}

pub struct BfsStats {
	pub states: usize,
	pub transitions: usize,
	pub revisits_executed: usize,
	pub max_depth: usize,
	pub closed: bool,
}

/// Explore one configuration to closure (or to `max_states`). Each new state (and the first
/// `revisit_cap` further arrivals at a known state) is executed on the implementation.
pub fn explore(cfg: &Cfg, max_states: usize, revisit_cap: u8, aspects: i64, local: &mut Local) -> BfsStats {
	let regime = spec::regime(cfg.ver);
	let nslots = cfg.slots().len() as u8;
	let mut seen: HashMap<Abs, u8> = HashMap::new();
	let mut frontier: VecDeque<Vec<AEv>> = VecDeque::new();
	let (_, a0, _) = build(cfg, &[]);
	seen.insert(a0, 0);
	frontier.push_back(vec![]);
	let mut st = BfsStats { states: 1, transitions: 0, revisits_executed: 0, max_depth: 0, closed: true };
	while let Some(hist) = frontier.pop_front() {
		let (_, a, _) = build(cfg, &hist);
		for ev in enabled(cfg, &a, nslots, regime) {
			let mut h2 = hist.clone();
			h2.push(ev);
			let (doc, a2, _) = build(cfg, &h2);
			st.transitions += 1;
			let new = !seen.contains_key(&a2);
			let arrivals = seen.entry(a2.clone()).or_insert(0);
			let execute = new || *arrivals < revisit_cap;
			if !new {
				*arrivals = arrivals.saturating_add(1);
			}
			if execute {
				if !new {
					st.revisits_executed += 1;
				}
				let bytes = Arc::new(doc.assemble());
				let mut p = P { class: if new { "bfs-new-state" } else { "bfs-revisit" }, ..Default::default() };
				p.n[0] = aspects | A_OPEN | A_LASTONLY;
				p.n[4] = -1;
				let label_h = h2.clone();
				let v = cfg.ver;
				eval_case("incremental", o_incremental, &bytes, &p, || format!("v{}.{} bfs history {:?}", v.0, v.1, label_h), local);
				// a finished stream is also judged by the one-shot reader
				if a2.phase == Phase::Ended {
					let mut p2 = P { class: "bfs-final", ..Default::default() };
					p2.n[0] = A_ONESHOT | A_TRANSPOSE;
					eval_case("model", o_model, &bytes, &p2, || format!("v{}.{} bfs history {:?}", v.0, v.1, h2), local);
				}
			}
			if new {
				st.states += 1;
				st.max_depth = st.max_depth.max(hist.len() + 1);
				if st.states >= max_states {
					st.closed = false;
					return st;
				}
				let mut h3 = hist.clone();
				h3.push(ev);
				frontier.push_back(h3);
			}
		}
	}
	st
}
