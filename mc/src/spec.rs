//! Reference model of the Slippi replay layout, transcribed by hand from the Slippi
//! SPEC. Independent of peppi's code and of gen/resources/frames.json.
//!
//! Offsets of frame events are quoted *as in the SPEC* (relative to the command byte);
//! payload offset = spec offset - 1. Game Start / Game End offsets are payload-relative.

#![allow(dead_code)]

#[derive(Clone, Copy, Debug, PartialEq, Eq, Hash, PartialOrd, Ord)]
pub enum Ty {
	U8,
	I8,
	U16,
	U32,
	I32,
	F32,
}

impl Ty {
	pub fn width(self) -> usize {
		match self {
			Ty::U8 | Ty::I8 => 1,
			Ty::U16 => 2,
			Ty::U32 | Ty::I32 | Ty::F32 => 4,
		}
	}
	pub fn name(self) -> &'static str {
		match self {
			Ty::U8 => "u8",
			Ty::I8 => "i8",
			Ty::U16 => "u16",
			Ty::U32 => "u32",
			Ty::I32 => "i32",
			Ty::F32 => "f32",
		}
	}
}

/// A decoded leaf value: the raw big-endian bits, zero-extended. Comparison is bitwise,
/// so NaN payloads count and i8 -1 is 0xFF.
pub type Bits = u32;

pub fn decode(ty: Ty, b: &[u8]) -> Bits {
	match ty.width() {
		1 => b[0] as u32,
		2 => u16::from_be_bytes([b[0], b[1]]) as u32,
		_ => u32::from_be_bytes([b[0], b[1], b[2], b[3]]),
	}
}

pub fn encode(ty: Ty, v: Bits, out: &mut [u8]) {
	match ty.width() {
		1 => out[0] = v as u8,
		2 => out[..2].copy_from_slice(&(v as u16).to_be_bytes()),
		_ => out[..4].copy_from_slice(&v.to_be_bytes()),
	}
}

#[derive(Clone, Copy, Debug, PartialEq, Eq, Hash, PartialOrd, Ord)]
pub enum Kind {
	Pre,
	Post,
	Start,
	Item,
	End,
}

pub const KINDS: [Kind; 5] = [Kind::Pre, Kind::Post, Kind::Start, Kind::Item, Kind::End];

impl Kind {
	pub fn code(self) -> u8 {
		match self {
			Kind::Pre => 0x37,
			Kind::Post => 0x38,
			Kind::Start => 0x3A,
			Kind::Item => 0x3B,
			Kind::End => 0x3C,
		}
	}
	pub fn name(self) -> &'static str {
		match self {
			Kind::Pre => "pre",
			Kind::Post => "post",
			Kind::Start => "start",
			Kind::Item => "item",
			Kind::End => "end",
		}
	}
	/// header bytes before the generated-reader fields (frame id [+ port + follower])
	pub fn header(self) -> usize {
		match self {
			Kind::Pre | Kind::Post => 6,
			_ => 4,
		}
	}
	/// first version in which the event exists
	pub fn since(self) -> (u8, u8) {
		match self {
			Kind::Pre | Kind::Post => (0, 1),
			Kind::Start => (2, 2),
			Kind::Item | Kind::End => (3, 0),
		}
	}
}

#[derive(Clone, Copy, Debug)]
pub struct Row {
	/// dotted path as peppi names it (struct nesting separated by '.')
	pub path: &'static str,
	pub ty: Ty,
	pub since: (u8, u8),
	/// offset relative to the command byte, literally from the SPEC
	pub spec_off: usize,
}

const fn r(path: &'static str, ty: Ty, since: (u8, u8), spec_off: usize) -> Row {
	Row { path, ty, since, spec_off }
}

use Ty::*;

pub const PRE: &[Row] = &[
	r("random_seed", U32, (0, 1), 0x07),
	r("state", U16, (0, 1), 0x0B),
	r("position.x", F32, (0, 1), 0x0D),
	r("position.y", F32, (0, 1), 0x11),
	r("direction", F32, (0, 1), 0x15),
	r("joystick.x", F32, (0, 1), 0x19),
	r("joystick.y", F32, (0, 1), 0x1D),
	r("cstick.x", F32, (0, 1), 0x21),
	r("cstick.y", F32, (0, 1), 0x25),
	r("triggers", F32, (0, 1), 0x29),
	r("buttons", U32, (0, 1), 0x2D),
	r("buttons_physical", U16, (0, 1), 0x31),
	r("triggers_physical.l", F32, (0, 1), 0x33),
	r("triggers_physical.r", F32, (0, 1), 0x37),
	r("raw_analog_x", I8, (1, 2), 0x3B),
	r("percent", F32, (1, 4), 0x3C),
	r("raw_analog_y", I8, (3, 15), 0x40),
];

pub const POST: &[Row] = &[
	r("character", U8, (0, 1), 0x07),
	r("state", U16, (0, 1), 0x08),
	r("position.x", F32, (0, 1), 0x0A),
	r("position.y", F32, (0, 1), 0x0E),
	r("direction", F32, (0, 1), 0x12),
	r("percent", F32, (0, 1), 0x16),
	r("shield", F32, (0, 1), 0x1A),
	r("last_attack_landed", U8, (0, 1), 0x1E),
	r("combo_count", U8, (0, 1), 0x1F),
	r("last_hit_by", U8, (0, 1), 0x20),
	r("stocks", U8, (0, 1), 0x21),
	r("state_age", F32, (0, 2), 0x22),
	r("state_flags.0", U8, (2, 0), 0x26),
	r("state_flags.1", U8, (2, 0), 0x27),
	r("state_flags.2", U8, (2, 0), 0x28),
	r("state_flags.3", U8, (2, 0), 0x29),
	r("state_flags.4", U8, (2, 0), 0x2A),
	r("misc_as", F32, (2, 0), 0x2B),
	r("airborne", U8, (2, 0), 0x2F),
	r("ground", U16, (2, 0), 0x30),
	r("jumps", U8, (2, 0), 0x32),
	r("l_cancel", U8, (2, 0), 0x33),
	r("hurtbox_state", U8, (2, 1), 0x34),
	r("velocities.self_x_air", F32, (3, 5), 0x35),
	r("velocities.self_y", F32, (3, 5), 0x39),
	r("velocities.knockback_x", F32, (3, 5), 0x3D),
	r("velocities.knockback_y", F32, (3, 5), 0x41),
	r("velocities.self_x_ground", F32, (3, 5), 0x45),
	r("hitlag", F32, (3, 8), 0x49),
	r("animation_index", U32, (3, 11), 0x4D),
	r("last_hit_by_instance", U16, (3, 16), 0x51),
	r("instance_id", U16, (3, 16), 0x53),
];

pub const START: &[Row] = &[
	r("random_seed", U32, (2, 2), 0x05),
	r("scene_frame_counter", U32, (3, 10), 0x09),
];

pub const ITEM: &[Row] = &[
	r("type", U16, (3, 0), 0x05),
	r("state", U8, (3, 0), 0x07),
	r("direction", F32, (3, 0), 0x08),
	r("velocity.x", F32, (3, 0), 0x0C),
	r("velocity.y", F32, (3, 0), 0x10),
	r("position.x", F32, (3, 0), 0x14),
	r("position.y", F32, (3, 0), 0x18),
	r("damage", U16, (3, 0), 0x1C),
	r("timer", F32, (3, 0), 0x1E),
	r("id", U32, (3, 0), 0x22),
	r("misc.0", U8, (3, 2), 0x26),
	r("misc.1", U8, (3, 2), 0x27),
	r("misc.2", U8, (3, 2), 0x28),
	r("misc.3", U8, (3, 2), 0x29),
	r("owner", I8, (3, 6), 0x2A),
	r("instance_id", U16, (3, 16), 0x2B),
];

pub const END: &[Row] = &[r("latest_finalized_frame", I32, (3, 7), 0x05)];

pub fn layout(k: Kind) -> &'static [Row] {
	match k {
		Kind::Pre => PRE,
		Kind::Post => POST,
		Kind::Start => START,
		Kind::Item => ITEM,
		Kind::End => END,
	}
}

pub fn gte(v: (u8, u8), t: (u8, u8)) -> bool {
	v.0 > t.0 || (v.0 == t.0 && v.1 >= t.1)
}

/// payload size (without the command byte) of a frame event at version `v`,
/// for versions up to the newest layout the model knows (3.16); newer versions keep 3.16's.
pub fn frame_payload_size(k: Kind, v: (u8, u8)) -> usize {
	let mut end = k.header();
	for row in layout(k) {
		if gte(v, row.since) {
			end = end.max(row.spec_off - 1 + row.ty.width());
		}
	}
	end
}

/// Game Start payload size by version.
pub fn game_start_size(v: (u8, u8)) -> usize {
	let t: &[((u8, u8), usize)] = &[
		((3, 14), 760),
		((3, 12), 701),
		((3, 11), 700),
		((3, 9), 584),
		((3, 7), 420),
		((2, 0), 418),
		((1, 5), 417),
		((1, 3), 416),
		((1, 0), 352),
		((0, 0), 320),
	];
	for (since, sz) in t {
		if gte(v, *since) {
			return *sz;
		}
	}
	unreachable!()
}

pub const GAME_START_CLASSES: [((u8, u8), usize); 10] = [
	((0, 1), 320),
	((1, 0), 352),
	((1, 3), 416),
	((1, 5), 417),
	((2, 0), 418),
	((3, 7), 420),
	((3, 9), 584),
	((3, 11), 700),
	((3, 12), 701),
	((3, 14), 760),
];

pub fn game_end_size(v: (u8, u8)) -> usize {
	if gte(v, (3, 13)) {
		6
	} else if gte(v, (2, 0)) {
		2
	} else {
		1
	}
}

/// All version thresholds at which any layout changes.
pub const THRESHOLDS: [(u8, u8); 24] = [
	(0, 2),
	(1, 0),
	(1, 2),
	(1, 3),
	(1, 4),
	(1, 5),
	(2, 0),
	(2, 1),
	(2, 2),
	(3, 0),
	(3, 2),
	(3, 3),
	(3, 5),
	(3, 6),
	(3, 7),
	(3, 8),
	(3, 9),
	(3, 10),
	(3, 11),
	(3, 12),
	(3, 13),
	(3, 14),
	(3, 15),
	(3, 16),
];

pub const MAX: (u8, u8) = (3, 16);

fn pred(v: (u8, u8)) -> (u8, u8) {
	if v.1 > 0 {
		(v.0, v.1 - 1)
	} else {
		(v.0 - 1, 255)
	}
}

/// all (major, minor) from 0.1 to 3.16: 255 + 256 + 256 + 17 = 784 pairs, plus 0.0 is excluded
/// (a replay cannot have version 0.0; the spec starts at 0.1).
pub fn v_all() -> Vec<(u8, u8)> {
	let mut out = vec![];
	for ma in 0..=3u8 {
		for mi in 0..=255u8 {
			if (ma, mi) == (0, 0) {
				continue;
			}
			if gte((ma, mi), (3, 17)) {
				continue;
			}
			out.push((ma, mi));
		}
	}
	out
}

/// first member of each of the 25 layout classes
pub fn v_rep() -> Vec<(u8, u8)> {
	let mut out = vec![(0, 1)];
	out.extend_from_slice(&THRESHOLDS);
	out
}

/// first and last member of each layout class
pub fn v_edge() -> Vec<(u8, u8)> {
	let reps = v_rep();
	let mut out = vec![];
	for (i, v) in reps.iter().enumerate() {
		out.push(*v);
		let last = if i + 1 < reps.len() { pred(reps[i + 1]) } else { MAX };
		if last != *v {
			out.push(last);
		}
	}
	out
}

pub fn class_of(v: (u8, u8)) -> usize {
	THRESHOLDS.iter().filter(|t| gte(v, **t)).count()
}

/// Framing regime: 0 = no start/end events (< 2.2); 1 = start only (2.2 - 2.x); 2 = start + end (>= 3.0)
pub fn regime(v: (u8, u8)) -> u8 {
	if gte(v, (3, 0)) {
		2
	} else if gte(v, (2, 2)) {
		1
	} else {
		0
	}
}

/// Self-check of the model: the literal spec offsets must equal the running sum of the widths
/// of the preceding fields, and the known total sizes of the newest layout must come out.
pub fn self_check() -> Result<(), String> {
	for k in KINDS {
		let mut off = k.header() + 1; // spec offsets are relative to the command byte
		for row in layout(k) {
			if row.spec_off != off {
				return Err(format!(
					"spec table {:?}: field {} literal offset {:#x} != running offset {:#x}",
					k, row.path, row.spec_off, off
				));
			}
			off += row.ty.width();
		}
		// version gates must be monotone in table order (the format only ever appends)
		let mut last = (0u8, 0u8);
		for row in layout(k) {
			if !gte(row.since, last) {
				return Err(format!("spec table {:?}: non-monotone since at {}", k, row.path));
			}
			last = row.since;
		}
	}
	let want = [
		(Kind::Pre, (3, 16), 64usize),
		(Kind::Post, (3, 16), 84),
		(Kind::Start, (3, 16), 12),
		(Kind::Item, (3, 16), 44),
		(Kind::End, (3, 16), 8),
		(Kind::Pre, (0, 1), 58),
		(Kind::Post, (0, 1), 33),
		(Kind::Post, (2, 0), 51),
		(Kind::Post, (3, 7), 72),
		(Kind::Pre, (1, 7), 63),
		(Kind::Item, (3, 0), 37),
		(Kind::End, (3, 0), 4),
		(Kind::Start, (2, 2), 8),
	];
	for (k, v, sz) in want {
		if frame_payload_size(k, v) != sz {
			return Err(format!(
				"spec size {:?}@{:?}: {} != {}",
				k,
				v,
				frame_payload_size(k, v),
				sz
			));
		}
	}
	if v_all().len() != 784 {
		return Err(format!("v_all has {} members", v_all().len()));
	}
	if v_rep().len() != 25 {
		return Err("v_rep".into());
	}
	Ok(())
}

// ---------------------------------------------------------------------------------------
// Game Start layout (payload-relative offsets)
// ---------------------------------------------------------------------------------------

pub mod gs {
	pub const VERSION: usize = 0x0; // 3 bytes + build number
	pub const BITFIELD: usize = 0x4; // 4 bytes
	pub const BOMBS: usize = 0xA;
	pub const TEAMS: usize = 0xC;
	pub const ITEM_FREQ: usize = 0xF; // i8
	pub const SD_SCORE: usize = 0x10; // i8
	pub const STAGE: usize = 0x12; // u16
	pub const TIMER: usize = 0x14; // u32
	pub const ITEM_BITFIELD: usize = 0x27; // 5 bytes
	pub const DAMAGE_RATIO: usize = 0x34; // f32
	pub const PLAYERS: usize = 0x64; // 6 x 36
	pub const PLAYER_STRIDE: usize = 0x24;
	pub mod pl {
		pub const CHARACTER: usize = 0x0;
		pub const TYPE: usize = 0x1;
		pub const STOCKS: usize = 0x2;
		pub const COSTUME: usize = 0x3;
		pub const TEAM_SHADE: usize = 0x7;
		pub const HANDICAP: usize = 0x8;
		pub const TEAM_COLOR: usize = 0x9;
		pub const BITFIELD: usize = 0xC;
		pub const CPU_LEVEL: usize = 0xF;
		pub const OFFENSE: usize = 0x18; // f32
		pub const DEFENSE: usize = 0x1C; // f32
		pub const SCALE: usize = 0x20; // f32
	}
	pub const SEED: usize = 0x13C; // u32
	pub const UCF: usize = 0x140; // 4 x (u32 dashback, u32 shield drop)       since 1.0
	pub const NAME_TAG: usize = 0x160; // 4 x 16                                  since 1.3
	pub const PAL: usize = 0x1A0; //                                              since 1.5
	pub const FROZEN_PS: usize = 0x1A1; //                                        since 2.0
	pub const SCENE_MINOR: usize = 0x1A2; //                                      since 3.7
	pub const SCENE_MAJOR: usize = 0x1A3;
	pub const DISPLAY_NAME: usize = 0x1A4; // 4 x 31                              since 3.9
	pub const CONNECT_CODE: usize = 0x220; // 4 x 10
	pub const SUID: usize = 0x248; // 4 x 29                                      since 3.11
	pub const LANGUAGE: usize = 0x2BC; //                                         since 3.12
	pub const MATCH_ID: usize = 0x2BD; // 51                                      since 3.14
	pub const GAME_NUMBER: usize = 0x2F0; // u32
	pub const TIEBREAKER: usize = 0x2F4; // u32
}
