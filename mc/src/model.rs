//! The reference walker: an independent, boring reading of a replay's bytes into the
//! abstract game the properties talk about (rows, presence, item groups, raw blocks), plus
//! the comparison of peppi's frame data against it.

#![allow(dead_code)]

use arrow2::array::MutableArray;
use peppi::frame::{immutable as im, mutable as mu};

use crate::rec::{ExpChar, ExpRow, PortCfg, ICS, SIGNATURE};
use crate::spec::{self, gs, Bits, Kind, Ty};
use crate::util::fnv_mix;
use crate::view::{self, Col, MCol};

#[derive(Clone, Debug, Default)]
pub struct RefGame {
	pub raw_len_declared: u32,
	pub table: Vec<(u8, u16)>,
	pub ver: (u8, u8, u8),
	pub start_block: Vec<u8>,
	pub ports: Vec<PortCfg>,
	pub rows: Vec<ExpRow>,
	pub end_block: Option<Vec<u8>>,
	pub n_ends: usize,
	pub gecko: Option<(Vec<u8>, u32)>,
	/// the bytes of the metadata element's entries+closing brace (after `U\x08metadata{`)
	pub metadata_body: Option<Vec<u8>>,
	/// events walked inside the raw element, excluding payload table and Game Start
	pub events: usize,
	pub unknown_events: usize,
	pub state_keys: Vec<u64>,
	/// after each walked event: number of rows that are complete (closed) in the model's sense
	pub rows_done: Vec<usize>,
	/// after each walked event: raw bytes consumed so far (payload table + Game Start included)
	pub bytes_after: Vec<usize>,
	/// bytes consumed through the top-level closing brace
	pub consumed: usize,
	/// file offsets of the start of each event after Game Start, and the end of raw
	pub boundaries: Vec<usize>,
	pub raw_end: usize,
	pub junk_after_end: usize,
	/// whether any row has an absent character / repeated id / items (non-triviality)
	pub has_absence: bool,
	/// (prefix mode) the stream stops inside a frame
	pub open_at_end: bool,
	pub has_rollback: bool,
	pub has_items: bool,
}

impl RefGame {
	pub fn v2(&self) -> (u8, u8) {
		(self.ver.0, self.ver.1)
	}
}

pub fn ports_from_start(block: &[u8]) -> Vec<PortCfg> {
	let mut out = vec![];
	for p in 0..4usize {
		let o = gs::PLAYERS + p * gs::PLAYER_STRIDE;
		if o + 2 > block.len() {
			break;
		}
		let ty = block[o + gs::pl::TYPE];
		if ty <= 2 {
			out.push(PortCfg { port: p as u8, ics: block[o + gs::pl::CHARACTER] == ICS, ptype: ty });
		}
	}
	out
}

const KNOWN: [u8; 10] = [0x10, 0x35, 0x36, 0x37, 0x38, 0x39, 0x3A, 0x3B, 0x3C, 0x3D];

/// Walk a replay the way the format defines it. `Err` means the input is outside the model's
/// domain (not a well-formed-up-to-tolerated-irregularities replay); it is never a verdict.
pub fn refparse(b: &[u8]) -> Result<RefGame, String> {
	refparse_opts(b, false)
}

/// `allow_open`: the stream may stop in the middle of a frame (a prefix of an event history); the
/// open row is then kept in `rows` but not counted as completed.
pub fn refparse_opts(b: &[u8], allow_open: bool) -> Result<RefGame, String> {
	let mut g = RefGame::default();
	if b.len() < 15 || b[..11] != SIGNATURE {
		return Err("signature".into());
	}
	g.raw_len_declared = u32::from_be_bytes([b[11], b[12], b[13], b[14]]);
	let raw_start = 15usize;
	let raw_end = raw_start + g.raw_len_declared as usize;
	if raw_end > b.len() {
		return Err("declared raw length beyond file".into());
	}
	g.raw_end = raw_end;
	let mut pos = raw_start;
	if b.get(pos) != Some(&0x35) {
		return Err("no payloads event".into());
	}
	let tsz = *b.get(pos + 1).ok_or("eof")? as usize;
	if tsz % 3 != 1 {
		return Err("table size".into());
	}
	let mut sizes = [0usize; 256];
	let mut have = [false; 256];
	for i in 0..(tsz - 1) / 3 {
		let o = pos + 2 + 3 * i;
		if o + 3 > raw_end {
			return Err("table beyond raw".into());
		}
		let code = b[o];
		let sz = u16::from_be_bytes([b[o + 1], b[o + 2]]);
		if sz == 0 {
			return Err("zero size".into());
		}
		g.table.push((code, sz));
		sizes[code as usize] = sz as usize;
		have[code as usize] = true;
	}
	pos += 1 + tsz;
	if b.get(pos) != Some(&0x36) || !have[0x36] || !have[0x39] {
		return Err("no game start".into());
	}
	if pos + 1 + sizes[0x36] > raw_end {
		return Err("game start beyond raw".into());
	}
	g.start_block = b[pos + 1..pos + 1 + sizes[0x36]].to_vec();
	if g.start_block.len() < 320 {
		return Err("short game start".into());
	}
	g.ver = (g.start_block[0], g.start_block[1], g.start_block[2]);
	g.ports = ports_from_start(&g.start_block);
	pos += 1 + sizes[0x36];
	let v = g.v2();
	let regime = spec::regime(v);
	let nports = g.ports.len();
	let mut port_slot = [usize::MAX; 4];
	for (i, p) in g.ports.iter().enumerate() {
		port_slot[p.port as usize] = i;
	}

	// open-frame bookkeeping
	let mut open = false;
	let mut ever_absent: Vec<[bool; 2]> = vec![[false, false]; nports];
	let mut split_blocks = 0usize;
	let mut split_bytes: Vec<u8> = vec![];
	let mut split_live: u32 = 0;
	let base_key = {
		let mut h = fnv_mix(0x1234, spec::class_of(v) as u64);
		for p in &g.ports {
			h = fnv_mix(h, 1 + p.port as u64 * 2 + p.ics as u64);
		}
		h
	};
	let mut ended = false;

	let close_row = |g: &mut RefGame, ever_absent: &mut Vec<[bool; 2]>| {
		if let Some(r) = g.rows.last() {
			for (pi, c) in r.chars.iter().enumerate() {
				if c[0].is_none() {
					ever_absent[pi][0] = true;
					g.has_absence = true;
				}
				if g.ports[pi].ics && c[1].is_none() {
					ever_absent[pi][1] = true;
					g.has_absence = true;
				}
			}
		}
	};

	while pos < raw_end {
		g.boundaries.push(pos);
		let code = b[pos];
		if !have[code as usize] {
			return Err(format!("event {:#x} not in table", code));
		}
		let sz = sizes[code as usize];
		if pos + 1 + sz > b.len() {
			return Err("event beyond file".into());
		}
		let mut payload = &b[pos + 1..pos + 1 + sz];
		pos += 1 + sz;
		g.events += 1;
		let mut code = code;
		let joined: Vec<u8>;
		if code == 0x10 {
			if sz != 516 {
				return Err("splitter size".into());
			}
			let live = u16::from_be_bytes([payload[512], payload[513]]);
			if live > 512 {
				return Err("splitter live size".into());
			}
			split_bytes.extend_from_slice(&payload[..512]);
			split_live += live as u32;
			split_blocks += 1;
			if payload[515] != 0 {
				code = payload[514];
				joined = std::mem::take(&mut split_bytes);
				payload = &joined[..];
			}
		}
		let header_id = |p: &[u8]| -> Result<i32, String> {
			if p.len() < 4 {
				return Err("short payload".into());
			}
			Ok(i32::from_be_bytes([p[0], p[1], p[2], p[3]]))
		};
		match code {
			0x10 => {}
			0x35 | 0x36 => return Err("duplicate payloads/start".into()),
			0x3D => {
				g.gecko = Some((payload.to_vec(), split_live));
			}
			0x39 => {
				g.end_block = Some(payload.to_vec());
				g.n_ends += 1;
				ended = true;
			}
			0x3A => {
				if regime < 1 {
					return Err("frame start before 2.2".into());
				}
				if open {
					close_row(&mut g, &mut ever_absent);
				}
				let id = header_id(payload)?;
				if g.rows.iter().any(|r| r.id == id) {
					g.has_rollback = true;
				}
				g.rows.push(ExpRow { id, start: Some(payload.to_vec()), chars: vec![[None, None]; nports], ..Default::default() });
				open = true;
			}
			0x37 | 0x38 => {
				if payload.len() < 6 {
					return Err("short pre/post".into());
				}
				let id = header_id(payload)?;
				let port = payload[4] as usize;
				let fo = payload[5] != 0;
				if port > 3 || port_slot[port] == usize::MAX {
					return Err("pre/post for unoccupied port".into());
				}
				let pi = port_slot[port];
				if fo && !g.ports[pi].ics {
					return Err("follower on non-ICs".into());
				}
				if code == 0x37 && regime == 0 {
					let last = g.rows.last().map(|r| r.id);
					if last.map_or(true, |l| l.wrapping_add(1) == id) && !(last.is_none() && id != -123) {
						if open {
							close_row(&mut g, &mut ever_absent);
						}
						g.rows.push(ExpRow { id, chars: vec![[None, None]; nports], ..Default::default() });
						open = true;
					}
				}
				let row = g.rows.last_mut().ok_or("pre/post before any frame")?;
				if row.id != id {
					return Err("pre/post id mismatch".into());
				}
				let slot = &mut row.chars[pi][fo as usize];
				if code == 0x37 {
					if slot.is_some() {
						return Err("duplicate pre".into());
					}
					*slot = Some(ExpChar { pre: payload.to_vec(), post: vec![] });
				} else {
					match slot {
						Some(c) if c.post.is_empty() => c.post = payload.to_vec(),
						_ => return Err("post without pre / duplicate post".into()),
					}
				}
			}
			0x3B => {
				if regime < 2 {
					return Err("item before 3.0".into());
				}
				let id = header_id(payload)?;
				let row = g.rows.last_mut().ok_or("item before any frame")?;
				if row.id != id || !open {
					return Err("item id mismatch".into());
				}
				row.items.push(payload.to_vec());
				g.has_items = true;
			}
			0x3C => {
				if regime < 2 {
					return Err("frame end before 3.0".into());
				}
				let id = header_id(payload)?;
				let row = g.rows.last_mut().ok_or("end before any frame")?;
				if row.id != id || !open {
					return Err("frame end id mismatch".into());
				}
				row.end = Some(payload.to_vec());
				close_row(&mut g, &mut ever_absent);
				open = false;
			}
			_ => {
				g.unknown_events += 1;
			}
		}
		// abstract state key after this event
		{
			let mut h = fnv_mix(base_key, open as u64);
			if let Some(r) = g.rows.last() {
				if open {
					for c in &r.chars {
						for s in c {
							h = fnv_mix(h, match s {
								None => 0,
								Some(c) if c.post.is_empty() => 1,
								Some(_) => 2,
							});
						}
					}
					h = fnv_mix(h, r.items.len().min(3) as u64);
				}
				// rollback offset: how far the row count runs ahead of the id sequence
				let off = (g.rows.len() as i64 - 1) - (r.id as i64 + 123);
				h = fnv_mix(h, off.clamp(-2, 3) as u64);
			} else {
				h = fnv_mix(h, 99);
			}
			for e in &ever_absent {
				h = fnv_mix(h, e[0] as u64 | (e[1] as u64) << 1);
			}
			h = fnv_mix(h, split_blocks.min(3) as u64);
			h = fnv_mix(h, g.gecko.is_some() as u64);
			h = fnv_mix(h, g.n_ends.min(2) as u64);
			h = fnv_mix(h, g.rows.len().min(2) as u64);
			g.state_keys.push(h);
			let done = if open && !ended { g.rows.len() - 1 } else { g.rows.len() };
			g.rows_done.push(done);
			g.bytes_after.push(pos - raw_start);
		}
		if ended {
			break;
		}
	}
	if open && !allow_open {
		// regimes without Frame End: the last frame is closed by the end of the stream
		if regime == 2 {
			// an unfinished frame in a >= 3.0 replay: peppi leaves the row ragged; outside the model
			return Err("unterminated frame".into());
		}
		close_row(&mut g, &mut ever_absent);
	}
	if !allow_open {
		for r in &g.rows {
			for c in r.chars.iter().flatten().flatten() {
				if c.post.is_empty() {
					return Err("pre without post".into());
				}
			}
		}
	}
	g.open_at_end = open && allow_open;
	// what follows Game End inside raw
	if pos < raw_end {
		let rest = &b[pos..raw_end];
		let end_sz = spec::game_end_size(v);
		if rest.len() == 1 + end_sz && rest[0] == 0x39 {
			g.n_ends += 1;
		} else {
			g.junk_after_end = rest.len();
		}
		pos = raw_end;
	} else if pos > raw_end {
		return Err("event crosses the declared raw length".into());
	}
	g.boundaries.push(pos);
	match b.get(pos) {
		Some(0x55) => {
			let lit = b"U\x08metadata{";
			if !b[pos..].starts_with(lit) {
				return Err("metadata key".into());
			}
			let body_start = pos + lit.len();
			let end = skip_map(b, body_start)?;
			g.metadata_body = Some(b[body_start..end].to_vec());
			pos = end;
			if b.get(pos) != Some(&b'}') {
				return Err("no closing brace".into());
			}
			pos += 1;
		}
		Some(0x7d) => pos += 1,
		_ => return Err("no metadata / closing brace".into()),
	}
	g.consumed = pos;
	Ok(g)
}

/// returns the offset just after the '}' that closes the map whose entries start at `pos`
fn skip_map(b: &[u8], mut pos: usize) -> Result<usize, String> {
	loop {
		match b.get(pos).ok_or("eof in map")? {
			b'}' => return Ok(pos + 1),
			b'U' => {
				let l = *b.get(pos + 1).ok_or("eof")? as usize;
				pos += 2 + l;
				match b.get(pos).ok_or("eof in value")? {
					b'S' => {
						if b.get(pos + 1) != Some(&b'U') {
							return Err("string length marker".into());
						}
						let l = *b.get(pos + 2).ok_or("eof")? as usize;
						pos += 3 + l;
					}
					b'l' => pos += 5,
					b'{' => pos = skip_map(b, pos + 1)?,
					_ => return Err("value type".into()),
				}
				if pos > b.len() {
					return Err("eof".into());
				}
			}
			_ => return Err("key type".into()),
		}
	}
}

// ------------------------------------------------------------------------------------
// comparing peppi's columns with the reference rows
// ------------------------------------------------------------------------------------

pub trait ColLike {
	fn ty(&self) -> Ty;
	fn len(&self) -> usize;
	fn bits(&self, i: usize) -> Bits;
	fn valid(&self, i: usize) -> bool;
}
impl<'a> ColLike for Col<'a> {
	fn ty(&self) -> Ty {
		Col::ty(self)
	}
	fn len(&self) -> usize {
		Col::len(self)
	}
	fn bits(&self, i: usize) -> Bits {
		Col::bits(self, i)
	}
	fn valid(&self, i: usize) -> bool {
		self.is_valid(i)
	}
}
impl<'a> ColLike for MCol<'a> {
	fn ty(&self) -> Ty {
		MCol::ty(self)
	}
	fn len(&self) -> usize {
		MCol::len(self)
	}
	fn bits(&self, i: usize) -> Bits {
		MCol::bits(self, i)
	}
	fn valid(&self, i: usize) -> bool {
		self.is_valid(i)
	}
}

/// Uniform access to a column set (immutable or mutable).
pub trait FrameLike {
	fn id_len(&self) -> usize;
	fn id(&self, i: usize) -> i32;
	fn n_ports(&self) -> usize;
	fn port_num(&self, p: usize) -> u8;
	fn has_follower(&self, p: usize) -> bool;
	/// Data-level validity (None = all valid)
	fn char_valid(&self, p: usize, fo: bool, i: usize) -> bool;
	fn char_validity_len(&self, p: usize, fo: bool) -> Option<usize>;
	fn leaf<'a>(&'a self, kind: Kind, p: usize, fo: bool, li: usize) -> Option<Box<dyn ColLike + 'a>>;
	fn has(&self, kind: Kind) -> bool;
	fn item_offsets(&self) -> Option<Vec<i32>>;
	fn n_leaves(kind: Kind) -> usize {
		match kind {
			Kind::Pre => view::PRE.len(),
			Kind::Post => view::POST.len(),
			Kind::Start => view::START.len(),
			Kind::End => view::END.len(),
			Kind::Item => view::ITEM.len(),
		}
	}
}

impl FrameLike for im::Frame {
	fn id_len(&self) -> usize {
		self.id.len()
	}
	fn id(&self, i: usize) -> i32 {
		self.id.values()[i]
	}
	fn n_ports(&self) -> usize {
		self.ports.len()
	}
	fn port_num(&self, p: usize) -> u8 {
		self.ports[p].port as u8
	}
	fn has_follower(&self, p: usize) -> bool {
		self.ports[p].follower.is_some()
	}
	fn char_valid(&self, p: usize, fo: bool, i: usize) -> bool {
		let d = if fo { self.ports[p].follower.as_ref().unwrap() } else { &self.ports[p].leader };
		d.validity.as_ref().map_or(true, |v| v.get_bit(i))
	}
	fn char_validity_len(&self, p: usize, fo: bool) -> Option<usize> {
		let d = if fo { self.ports[p].follower.as_ref().unwrap() } else { &self.ports[p].leader };
		d.validity.as_ref().map(|v| v.len())
	}
	fn leaf<'a>(&'a self, kind: Kind, p: usize, fo: bool, li: usize) -> Option<Box<dyn ColLike + 'a>> {
		let data = || if fo { self.ports[p].follower.as_ref().unwrap() } else { &self.ports[p].leader };
		let c: Option<Col<'a>> = match kind {
			Kind::Pre => (view::PRE[li].imm)(&data().pre),
			Kind::Post => (view::POST[li].imm)(&data().post),
			Kind::Start => self.start.as_ref().and_then(|s| (view::START[li].imm)(s)),
			Kind::End => self.end.as_ref().and_then(|s| (view::END[li].imm)(s)),
			Kind::Item => self.item.as_ref().and_then(|s| (view::ITEM[li].imm)(s)),
		};
		c.map(|c| Box::new(c) as Box<dyn ColLike + 'a>)
	}
	fn has(&self, kind: Kind) -> bool {
		match kind {
			Kind::Start => self.start.is_some(),
			Kind::End => self.end.is_some(),
			Kind::Item => self.item.is_some() && self.item_offset.is_some(),
			_ => true,
		}
	}
	fn item_offsets(&self) -> Option<Vec<i32>> {
		self.item_offset.as_ref().map(|o| o.buffer().iter().copied().collect())
	}
}

impl FrameLike for mu::Frame {
	fn id_len(&self) -> usize {
		self.id.len()
	}
	fn id(&self, i: usize) -> i32 {
		self.id.values()[i]
	}
	fn n_ports(&self) -> usize {
		self.ports.len()
	}
	fn port_num(&self, p: usize) -> u8 {
		self.ports[p].port as u8
	}
	fn has_follower(&self, p: usize) -> bool {
		self.ports[p].follower.is_some()
	}
	fn char_valid(&self, p: usize, fo: bool, i: usize) -> bool {
		let d = if fo { self.ports[p].follower.as_ref().unwrap() } else { &self.ports[p].leader };
		d.validity.as_ref().map_or(true, |v| v.get(i))
	}
	fn char_validity_len(&self, p: usize, fo: bool) -> Option<usize> {
		let d = if fo { self.ports[p].follower.as_ref().unwrap() } else { &self.ports[p].leader };
		d.validity.as_ref().map(|v| v.len())
	}
	fn leaf<'a>(&'a self, kind: Kind, p: usize, fo: bool, li: usize) -> Option<Box<dyn ColLike + 'a>> {
		let data = || if fo { self.ports[p].follower.as_ref().unwrap() } else { &self.ports[p].leader };
		let c: Option<MCol<'a>> = match kind {
			Kind::Pre => (view::PRE[li].mt)(&data().pre),
			Kind::Post => (view::POST[li].mt)(&data().post),
			Kind::Start => self.start.as_ref().and_then(|s| (view::START[li].mt)(s)),
			Kind::End => self.end.as_ref().and_then(|s| (view::END[li].mt)(s)),
			Kind::Item => self.item.as_ref().and_then(|s| (view::ITEM[li].mt)(s)),
		};
		c.map(|c| Box::new(c) as Box<dyn ColLike + 'a>)
	}
	fn has(&self, kind: Kind) -> bool {
		match kind {
			Kind::Start => self.start.is_some(),
			Kind::End => self.end.is_some(),
			Kind::Item => self.item.is_some() && self.item_offset.is_some(),
			_ => true,
		}
	}
	fn item_offsets(&self) -> Option<Vec<i32>> {
		self.item_offset.as_ref().map(|o| o.as_slice().to_vec())
	}
}

fn leaf_path(kind: Kind, li: usize) -> &'static str {
	match kind {
		Kind::Pre => view::PRE[li].path,
		Kind::Post => view::POST[li].path,
		Kind::Start => view::START[li].path,
		Kind::End => view::END[li].path,
		Kind::Item => view::ITEM[li].path,
	}
}

/// (short key, message)
pub type Mismatch = (String, String);

fn mm(key: &str, msg: String) -> Mismatch {
	(key.to_string(), msg)
}

#[allow(clippy::too_many_arguments)]
fn check_leafs<F: FrameLike>(f: &F, v: (u8, u8), complete: bool, kind: Kind, pi: usize, fo: bool, payloads: &[Option<&[u8]>], who: &str) -> Result<(), Mismatch> {
	let n = payloads.len();
	for (li, row) in spec::layout(kind).iter().enumerate() {
		debug_assert_eq!(row.path, leaf_path(kind, li));
		let want = spec::gte(v, row.since);
		let col = f.leaf(kind, pi, fo, li);
		match (&col, want) {
			(None, false) => continue,
			(Some(_), false) => {
				return Err(mm("gate", format!("{}{}.{} is present at version {}.{} but was introduced in {}.{}", who, kind.name(), row.path, v.0, v.1, row.since.0, row.since.1)))
			}
			(None, true) => {
				return Err(mm("gate", format!("{}{}.{} is absent at version {}.{} but exists since {}.{}", who, kind.name(), row.path, v.0, v.1, row.since.0, row.since.1)))
			}
			_ => {}
		}
		let col = col.unwrap();
		if col.ty() != row.ty {
			return Err(mm("type", format!("{}{}.{} has type {} but the spec says {}", who, kind.name(), row.path, col.ty().name(), row.ty.name())));
		}
		if complete && col.len() != n {
			return Err(mm("len", format!("{}{}.{} has {} entries for {} rows", who, kind.name(), row.path, col.len(), n)));
		}
		if col.len() < n {
			return Err(mm("len", format!("{}{}.{} has {} entries < {} completed rows", who, kind.name(), row.path, col.len(), n)));
		}
		for (i, p) in payloads.iter().enumerate() {
			if let Some(p) = p {
				let off = row.spec_off - 1;
				if off + row.ty.width() > p.len() {
					return Err(mm("model", format!("payload too short for {}", row.path)));
				}
				let want_bits = spec::decode(row.ty, &p[off..]);
				if col.bits(i) != want_bits {
					return Err(mm(
						"value",
						format!(
							"{}{}.{} row {}: {:#x}, but the {} bytes at spec offset {:#x} are {:#x}",
							who,
							kind.name(),
							row.path,
							i,
							col.bits(i),
							row.ty.width(),
							row.spec_off,
							want_bits
						),
					));
				}
				if !col.valid(i) {
					return Err(mm("validity", format!("{}{}.{} row {} is marked null but the event is present", who, kind.name(), row.path, i)));
				}
			}
		}
	}
	Ok(())
}

/// Compare the first `rows_done` rows of a column set against the reference rows.
/// `complete` = the column set is finished (all lengths must equal the row count exactly).
pub fn compare_frames<F: FrameLike>(f: &F, g: &RefGame, rows_done: usize, complete: bool) -> Result<(), Mismatch> {
	let v = g.v2();
	let rows = &g.rows[..rows_done];
	// (i) one row per frame occurrence, in file order
	if complete && f.id_len() != rows.len() {
		return Err(mm("rows", format!("{} frame rows, the file has {} frame occurrences", f.id_len(), rows.len())));
	}
	if f.id_len() < rows.len() {
		return Err(mm("rows", format!("{} frame rows < {} completed frame occurrences", f.id_len(), rows.len())));
	}
	for (i, r) in rows.iter().enumerate() {
		if f.id(i) != r.id {
			return Err(mm("ids", format!("row {} has id {}, the file's occurrence {} has id {}", i, f.id(i), i, r.id)));
		}
	}
	// ports: exactly the occupied ports, in port order, follower iff ICs
	if f.n_ports() != g.ports.len() {
		return Err(mm("ports", format!("{} port column sets for {} occupied ports", f.n_ports(), g.ports.len())));
	}
	for (pi, c) in g.ports.iter().enumerate() {
		if f.port_num(pi) != c.port {
			return Err(mm("ports", format!("port slot {} is port {}, expected {}", pi, f.port_num(pi), c.port)));
		}
		if f.has_follower(pi) != c.ics {
			return Err(mm("ports", format!("port {} follower columns: {} but ICs={}", c.port, f.has_follower(pi), c.ics)));
		}
	}
	// start / end / item column presence by version
	for k in [Kind::Start, Kind::End, Kind::Item] {
		let want = spec::gte(v, k.since());
		if f.has(k) != want {
			return Err(mm("gate", format!("{} columns present={} but version {}.{} {} them", k.name(), f.has(k), v.0, v.1, if want { "has" } else { "lacks" })));
		}
	}
	// (ii) presence and values per character
	for (pi, c) in g.ports.iter().enumerate() {
		for fo in [false, true] {
			if fo && !c.ics {
				continue;
			}
			let who = format!("ports[{}](P{}).{}.", pi, c.port + 1, if fo { "follower" } else { "leader" });
			if let Some(l) = f.char_validity_len(pi, fo) {
				if complete && l != rows.len() {
					return Err(mm("len", format!("{}validity has {} bits for {} rows", who, l, rows.len())));
				}
				if l < rows.len() {
					return Err(mm("len", format!("{}validity has {} bits < {} completed rows", who, l, rows.len())));
				}
			}
			for (i, r) in rows.iter().enumerate() {
				let present = r.chars[pi][fo as usize].is_some();
				if f.char_valid(pi, fo, i) != present {
					return Err(mm(
						"presence",
						format!("{}row {} (frame {}): marked present={} but the character {} events in that occurrence", who, i, r.id, !present, if present { "has" } else { "has no" }),
					));
				}
			}
			let pre: Vec<Option<&[u8]>> = rows.iter().map(|r| r.chars[pi][fo as usize].as_ref().map(|c| &c.pre[..])).collect();
			let post: Vec<Option<&[u8]>> = rows.iter().map(|r| r.chars[pi][fo as usize].as_ref().map(|c| &c.post[..])).collect();
			check_leafs(f, v, complete, Kind::Pre, pi, fo, &pre, &who)?;
			check_leafs(f, v, complete, Kind::Post, pi, fo, &post, &who)?;
		}
	}
	if f.has(Kind::Start) {
		let p: Vec<Option<&[u8]>> = rows.iter().map(|r| r.start.as_deref()).collect();
		check_leafs(f, v, complete, Kind::Start, 0, false, &p, "")?;
	}
	if f.has(Kind::End) {
		// in the mutable view the open frame has no end entry yet
		let p: Vec<Option<&[u8]>> = rows.iter().map(|r| r.end.as_deref()).collect();
		check_leafs(f, v, complete, Kind::End, 0, false, &p, "")?;
	}
	// (iii) items
	if f.has(Kind::Item) {
		let offs = f.item_offsets().unwrap();
		if complete && offs.len() != rows.len() + 1 {
			return Err(mm("items", format!("item_offset has {} entries for {} rows", offs.len(), rows.len())));
		}
		if offs.len() < rows.len() + 1 {
			return Err(mm("items", format!("item_offset has {} entries < {} completed rows + 1", offs.len(), rows.len())));
		}
		let mut acc = 0i32;
		let mut flat: Vec<Vec<u8>> = vec![];
		for (i, r) in rows.iter().enumerate() {
			if offs[i] != acc {
				return Err(mm("items", format!("item_offset[{}] = {}, expected {} (prefix sum of item events per occurrence)", i, offs[i], acc)));
			}
			acc += r.items.len() as i32;
			flat.extend(r.items.iter().cloned());
		}
		if offs[rows.len()] != acc {
			return Err(mm("items", format!("item_offset[{}] = {}, expected {}", rows.len(), offs[rows.len()], acc)));
		}
		let n = flat.len();
		// item columns are flat
		for (li, row) in spec::layout(Kind::Item).iter().enumerate() {
			let want = spec::gte(v, row.since);
			let col = f.leaf(Kind::Item, 0, false, li);
			match (&col, want) {
				(None, false) => continue,
				(Some(_), false) | (None, true) => return Err(mm("gate", format!("item.{} presence wrong for version {}.{}", row.path, v.0, v.1))),
				_ => {}
			}
			let col = col.unwrap();
			if col.ty() != row.ty {
				return Err(mm("type", format!("item.{} has type {} but the spec says {}", row.path, col.ty().name(), row.ty.name())));
			}
			if complete && col.len() != n {
				return Err(mm("len", format!("item.{} has {} entries for {} item events", row.path, col.len(), n)));
			}
			if col.len() < n {
				return Err(mm("len", format!("item.{} has {} entries < {} item events", row.path, col.len(), n)));
			}
			for (i, p) in flat.iter().enumerate() {
				let want_bits = spec::decode(row.ty, &p[row.spec_off - 1..]);
				if col.bits(i) != want_bits {
					return Err(mm("value", format!("item.{} #{}: {:#x}, but the bytes at spec offset {:#x} are {:#x}", row.path, i, col.bits(i), row.spec_off, want_bits)));
				}
			}
		}
	}
	Ok(())
}


// ------------------------------------------------------------------------------------
// the transposed (row) view against the columns
// ------------------------------------------------------------------------------------

use peppi::frame::transpose as tr;

fn tr_leaf(kind: Kind, li: usize, t: &tr::Frame, pi: usize, fo: bool, item: usize) -> Option<(Ty, Bits)> {
	fn data(t: &tr::Frame, pi: usize, fo: bool) -> Option<&tr::Data> {
		let p = t.ports.get(pi)?;
		if fo {
			p.follower.as_ref()
		} else {
			Some(&p.leader)
		}
	}
	match kind {
		Kind::Pre => data(t, pi, fo).and_then(|d| (view::PRE[li].tr)(&d.pre)),
		Kind::Post => data(t, pi, fo).and_then(|d| (view::POST[li].tr)(&d.post)),
		Kind::Start => t.start.as_ref().and_then(|s| (view::START[li].tr)(s)),
		Kind::End => t.end.as_ref().and_then(|s| (view::END[li].tr)(s)),
		Kind::Item => t.items.as_ref().and_then(|v| v.get(item)).and_then(|s| (view::ITEM[li].tr)(s)),
	}
}

/// The row view `t` of row `i` must contain exactly the values stored at index `i` of the columns.
pub fn compare_transposed<F: FrameLike>(f: &F, i: usize, t: &tr::Frame) -> Result<(), Mismatch> {
	if t.id != f.id(i) {
		return Err(mm("tr-id", format!("row view {}: id {} but the id column holds {}", i, t.id, f.id(i))));
	}
	if t.ports.len() != f.n_ports() {
		return Err(mm("tr-ports", format!("row view {}: {} ports, columns have {}", i, t.ports.len(), f.n_ports())));
	}
	for pi in 0..f.n_ports() {
		if t.ports[pi].port as u8 != f.port_num(pi) {
			return Err(mm("tr-ports", format!("row view {}: port slot {} is {:?}", i, pi, t.ports[pi].port)));
		}
		if t.ports[pi].follower.is_some() != f.has_follower(pi) {
			return Err(mm("tr-ports", format!("row view {}: follower presence differs for slot {}", i, pi)));
		}
		for fo in [false, true] {
			if fo && !f.has_follower(pi) {
				continue;
			}
			for (kind, cnt) in [(Kind::Pre, view::PRE.len()), (Kind::Post, view::POST.len())] {
				for li in 0..cnt {
					let col = f.leaf(kind, pi, fo, li).map(|c| (c.ty(), c.bits(i)));
					let got = tr_leaf(kind, li, t, pi, fo, 0);
					if col != got {
						return Err(mm(
							"tr-value",
							format!("row view {}: ports[{}].{}.{}.{} = {:x?} but the column holds {:x?}", i, pi, if fo { "follower" } else { "leader" }, kind.name(), leaf_path(kind, li), got, col),
						));
					}
				}
			}
		}
	}
	for (kind, cnt) in [(Kind::Start, view::START.len()), (Kind::End, view::END.len())] {
		let present = match kind {
			Kind::Start => t.start.is_some(),
			_ => t.end.is_some(),
		};
		if present != f.has(kind) {
			return Err(mm("tr-gate", format!("row view {}: {} present={} but columns present={}", i, kind.name(), present, f.has(kind))));
		}
		for li in 0..cnt {
			let col = f.leaf(kind, 0, false, li).map(|c| (c.ty(), c.bits(i)));
			let got = tr_leaf(kind, li, t, 0, false, 0);
			if col != got {
				return Err(mm("tr-value", format!("row view {}: {}.{} = {:x?} but the column holds {:x?}", i, kind.name(), leaf_path(kind, li), got, col)));
			}
		}
	}
	if t.items.is_some() != f.has(Kind::Item) {
		return Err(mm("tr-gate", format!("row view {}: items present={} but item columns present={}", i, t.items.is_some(), f.has(Kind::Item))));
	}
	if let Some(items) = &t.items {
		let offs = f.item_offsets().unwrap();
		let (a, b) = (offs[i] as usize, offs[i + 1] as usize);
		if items.len() != b - a {
			return Err(mm("tr-items", format!("row view {}: {} items but the offsets delimit {}..{}", i, items.len(), a, b)));
		}
		for k in 0..items.len() {
			for li in 0..view::ITEM.len() {
				let col = f.leaf(Kind::Item, 0, false, li).map(|c| (c.ty(), c.bits(a + k)));
				let got = tr_leaf(Kind::Item, li, t, 0, false, k);
				if col != got {
					return Err(mm("tr-items", format!("row view {}: item {} .{} = {:x?} but the column holds {:x?} at flat index {}", i, k, leaf_path(Kind::Item, li), got, col, a + k)));
				}
			}
		}
	}
	Ok(())
}

/// bitwise equality of two row views
pub fn transposed_equal(a: &tr::Frame, b: &tr::Frame) -> Result<(), String> {
	if a.id != b.id || a.ports.len() != b.ports.len() {
		return Err(format!("id/ports differ: {} / {} ports vs {} / {} ports", a.id, a.ports.len(), b.id, b.ports.len()));
	}
	for pi in 0..a.ports.len() {
		if a.ports[pi].port != b.ports[pi].port || a.ports[pi].follower.is_some() != b.ports[pi].follower.is_some() {
			return Err(format!("port slot {} differs", pi));
		}
		for fo in [false, true] {
			for (kind, cnt) in [(Kind::Pre, view::PRE.len()), (Kind::Post, view::POST.len())] {
				for li in 0..cnt {
					if tr_leaf(kind, li, a, pi, fo, 0) != tr_leaf(kind, li, b, pi, fo, 0) {
						return Err(format!("ports[{}] fo={} {}.{} differs", pi, fo, kind.name(), leaf_path(kind, li)));
					}
				}
			}
		}
	}
	for (kind, cnt) in [(Kind::Start, view::START.len()), (Kind::End, view::END.len())] {
		for li in 0..cnt {
			if tr_leaf(kind, li, a, 0, false, 0) != tr_leaf(kind, li, b, 0, false, 0) {
				return Err(format!("{}.{} differs", kind.name(), leaf_path(kind, li)));
			}
		}
	}
	if a.start.is_some() != b.start.is_some() || a.end.is_some() != b.end.is_some() {
		return Err("start/end presence differs".into());
	}
	match (&a.items, &b.items) {
		(None, None) => {}
		(Some(x), Some(y)) => {
			if x.len() != y.len() {
				return Err(format!("item counts differ: {} vs {}", x.len(), y.len()));
			}
			for k in 0..x.len() {
				for li in 0..view::ITEM.len() {
					if tr_leaf(Kind::Item, li, a, 0, false, k) != tr_leaf(Kind::Item, li, b, 0, false, k) {
						return Err(format!("item {} .{} differs", k, leaf_path(Kind::Item, li)));
					}
				}
			}
		}
		_ => return Err("items presence differs".into()),
	}
	Ok(())
}
