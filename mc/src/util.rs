//! Shared machinery: panic capture, parallel exhaustive runner with watchdog, evidence,
//! violation / known-finding handling, replay artefacts.

#![allow(dead_code)]

use std::cell::RefCell;
use std::collections::{BTreeMap, HashSet};
use std::panic::{self, AssertUnwindSafe};
use std::sync::atomic::{AtomicBool, AtomicU64, Ordering};
use std::sync::{Arc, Mutex, OnceLock};
use std::time::{Duration, Instant};

use serde_json::{json, Value};

/// /verif, unless VERIF_HOME points at a scratch copy (used only by the seeded-change matrix tool)
pub fn verif_home() -> String {
	std::env::var("VERIF_HOME").unwrap_or_else(|_| "/verif".to_string())
}

/// /repo, unless VERIF_REPO points at a scratch copy
pub fn repo_home() -> String {
	std::env::var("VERIF_REPO").unwrap_or_else(|_| "/repo".to_string())
}

// ------------------------------------------------------------------ small helpers

pub fn hex(b: &[u8]) -> String {
	let mut s = String::with_capacity(b.len() * 2);
	for x in b {
		s.push_str(&format!("{:02x}", x));
	}
	s
}

pub fn unhex(s: &str) -> Vec<u8> {
	(0..s.len() / 2).map(|i| u8::from_str_radix(&s[2 * i..2 * i + 2], 16).unwrap()).collect()
}

pub fn fnv(b: &[u8]) -> u64 {
	let mut h: u64 = 0xcbf29ce484222325;
	for x in b {
		h ^= *x as u64;
		h = h.wrapping_mul(0x100000001b3);
	}
	h
}

pub fn fnv_mix(h: u64, x: u64) -> u64 {
	let mut h = h ^ x.wrapping_mul(0x9E3779B97F4A7C15);
	h = h.rotate_left(27).wrapping_mul(0x100000001b3);
	h ^ (h >> 31)
}

/// replace runs of digits by 'N' so that keys do not depend on concrete numbers
pub fn sanitize(s: &str) -> String {
	let mut out = String::new();
	let mut in_num = false;
	for c in s.chars() {
		if c.is_ascii_digit() {
			if !in_num {
				out.push('N');
				in_num = true;
			}
		} else {
			in_num = false;
			out.push(if c == '\n' { ' ' } else { c });
		}
	}
	if out.len() > 160 {
		let mut cut = 160;
		while !out.is_char_boundary(cut) {
			cut -= 1;
		}
		out.truncate(cut);
	}
	out
}

// ------------------------------------------------------------------ panic capture

thread_local! {
	static LAST_PANIC: RefCell<Option<String>> = RefCell::new(None);
	static QUIET: RefCell<u32> = RefCell::new(0);
}

pub fn install_panic_hook() {
	let default = panic::take_hook();
	panic::set_hook(Box::new(move |info| {
		let quiet = QUIET.with(|q| *q.borrow()) > 0;
		let loc = info
			.location()
			.map(|l| {
				// keep only the file (path tail), not the line: keys must survive edits elsewhere
				let f = l.file();
				let tail: Vec<&str> = f.rsplit('/').take(3).collect();
				let tail: Vec<&str> = tail.into_iter().rev().collect();
				format!("{}:{}", tail.join("/"), l.line())
			})
			.unwrap_or_default();
		let msg = if let Some(s) = info.payload().downcast_ref::<&str>() {
			s.to_string()
		} else if let Some(s) = info.payload().downcast_ref::<String>() {
			s.clone()
		} else {
			"<non-string panic>".to_string()
		};
		LAST_PANIC.with(|p| *p.borrow_mut() = Some(format!("{} @ {}", msg, loc)));
		if !quiet {
			default(info);
		}
	}));
}

#[derive(Debug, Clone)]
pub struct Panicked {
	pub msg: String,
}

impl Panicked {
	/// stable key: message without numbers, file without line
	pub fn key(&self) -> String {
		let (m, loc) = match self.msg.rsplit_once(" @ ") {
			Some((m, l)) => (m, l),
			None => (self.msg.as_str(), ""),
		};
		let file = loc.rsplit_once(':').map_or(loc, |(f, _)| f);
		format!("panic[{}]@{}", sanitize(m), file)
	}
}

/// Run `f`, converting a panic into Err. Panics inside are not printed.
pub fn catch<T>(f: impl FnOnce() -> T) -> Result<T, Panicked> {
	QUIET.with(|q| *q.borrow_mut() += 1);
	LAST_PANIC.with(|p| *p.borrow_mut() = None);
	let r = panic::catch_unwind(AssertUnwindSafe(f));
	QUIET.with(|q| *q.borrow_mut() -= 1);
	r.map_err(|_| Panicked {
		msg: LAST_PANIC.with(|p| p.borrow_mut().take()).unwrap_or_else(|| "<unknown panic>".into()),
	})
}

// ------------------------------------------------------------------ case params / artefacts

/// Cheap, generic parameter bag for an oracle call; serialisable into a replay artefact.
#[derive(Clone, Debug, Default, PartialEq)]
pub struct P {
	pub skip: bool,
	pub hash: bool,
	/// 0 none, 1 LZ4, 2 ZSTD
	pub comp: u8,
	pub n: [i64; 6],
	pub s: Option<Arc<str>>,
	/// free-form class label used in violation keys (deviation class, sub-check)
	pub class: &'static str,
}

impl P {
	pub fn to_json(&self) -> Value {
		json!({"skip": self.skip, "hash": self.hash, "comp": self.comp, "n": self.n, "s": self.s.as_deref(), "class": self.class})
	}
	pub fn from_json(v: &Value) -> P {
		let mut n = [0i64; 6];
		if let Some(a) = v["n"].as_array() {
			for (i, x) in a.iter().enumerate().take(6) {
				n[i] = x.as_i64().unwrap_or(0);
			}
		}
		P {
			skip: v["skip"].as_bool().unwrap_or(false),
			hash: v["hash"].as_bool().unwrap_or(false),
			comp: v["comp"].as_u64().unwrap_or(0) as u8,
			n,
			s: v["s"].as_str().map(|s| Arc::from(s)),
			class: Box::leak(v["class"].as_str().unwrap_or("").to_string().into_boxed_str()),
		}
	}
}

#[derive(Clone, Debug)]
pub struct Viol {
	/// stable descriptor: used to match known findings
	pub key: String,
	pub msg: String,
}

/// Outcome of one oracle evaluation.
#[derive(Clone, Debug, Default)]
pub struct Out {
	/// hash of the observation (for counting distinct outcomes)
	pub obs: u64,
	/// implementation transitions exercised (parse_event calls, function evaluations)
	pub transitions: u64,
	/// abstract state keys visited
	pub states: Vec<u64>,
	pub viol: Option<Viol>,
	/// non-trivial by the check's rule (e.g. contains an absence / rollback / deviation)
	pub nontrivial: bool,
}

pub type Oracle = fn(&[u8], &P) -> Out;

// ------------------------------------------------------------------ run context

#[derive(Clone, Copy, PartialEq, Eq, Debug)]
pub enum Tier {
	Quick,
	Thorough,
}

pub struct Stats {
	pub evaluations: AtomicU64,
	pub transitions: AtomicU64,
	pub nontrivial: AtomicU64,
	pub states: Mutex<HashSet<u64>>,
	pub outcomes: Mutex<HashSet<u64>>,
	pub distinct_inputs: Mutex<HashSet<u64>>,
	pub bulk: AtomicU64,
	pub samples: Mutex<Vec<Value>>,
	pub viols: Mutex<Vec<(Viol, Value)>>,
	pub viol_count: AtomicU64,
	pub notes: Mutex<BTreeMap<String, Value>>,
	pub caps: Mutex<Vec<String>>,
}

pub struct Ctx {
	pub prop: &'static str,
	pub level: &'static str,
	pub tier: Tier,
	pub seed: u64,
	pub start: Instant,
	pub threads: usize,
	pub stats: Stats,
	pub replay_mode: bool,
}

static CTX: OnceLock<Arc<Ctx>> = OnceLock::new();

pub fn ctx() -> &'static Arc<Ctx> {
	CTX.get().expect("ctx")
}

pub fn init_ctx(prop: &'static str, level: &'static str, tier: Tier, replay_mode: bool) -> &'static Arc<Ctx> {
	let seed = std::env::var("VERIF_SEED").ok().and_then(|s| s.parse().ok()).unwrap_or(0);
	let threads = std::env::var("VERIF_THREADS")
		.ok()
		.and_then(|s| s.parse().ok())
		.unwrap_or_else(|| std::thread::available_parallelism().map_or(8, |n| n.get()));
	let c = Ctx {
		prop,
		level,
		tier,
		seed,
		start: Instant::now(),
		threads,
		replay_mode,
		stats: Stats {
			evaluations: AtomicU64::new(0),
			transitions: AtomicU64::new(0),
			nontrivial: AtomicU64::new(0),
			states: Mutex::new(HashSet::new()),
			outcomes: Mutex::new(HashSet::new()),
			distinct_inputs: Mutex::new(HashSet::new()),
			bulk: AtomicU64::new(0),
			samples: Mutex::new(vec![]),
			viols: Mutex::new(vec![]),
			viol_count: AtomicU64::new(0),
			notes: Mutex::new(BTreeMap::new()),
			caps: Mutex::new(vec![]),
		},
	};
	let _ = CTX.set(Arc::new(c));
	ctx()
}

impl Ctx {
	pub fn quick(&self) -> bool {
		self.tier == Tier::Quick
	}
	pub fn note(&self, k: &str, v: Value) {
		self.stats.notes.lock().unwrap().insert(k.to_string(), v);
	}
	pub fn add_note_count(&self, k: &str, n: u64) {
		let mut g = self.stats.notes.lock().unwrap();
		let cur = g.get(k).and_then(|v| v.as_u64()).unwrap_or(0);
		g.insert(k.to_string(), json!(cur + n));
	}
	pub fn cap(&self, s: String) {
		self.stats.caps.lock().unwrap().push(s);
	}
	pub fn sample(&self, v: Value) {
		let mut g = self.stats.samples.lock().unwrap();
		if g.len() < 12 {
			g.push(v);
		}
	}
}

// ------------------------------------------------------------------ watchdog slots

#[derive(Clone)]
pub struct CaseRef {
	pub oracle: &'static str,
	pub input: Arc<Vec<u8>>,
	pub p: P,
	pub label: Arc<str>,
}

struct Slot {
	case: Option<CaseRef>,
	since: Instant,
}

static SLOTS: OnceLock<Vec<Mutex<Slot>>> = OnceLock::new();
thread_local! {
	static MY_SLOT: RefCell<Option<usize>> = RefCell::new(None);
}
pub static SLEEP_TOTAL: AtomicU64 = AtomicU64::new(0);
thread_local! {
	pub static SLEEPS_IN_CASE: RefCell<u32> = RefCell::new(0);
}
static WATCHDOG_ON: AtomicBool = AtomicBool::new(false);
static STOPPED_EARLY: AtomicBool = AtomicBool::new(false);

pub const HANG_SECS: u64 = 60;
pub const LIVELOCK_SLEEPS: u32 = 4;

fn slots() -> &'static Vec<Mutex<Slot>> {
	SLOTS.get_or_init(|| (0..256).map(|_| Mutex::new(Slot { case: None, since: Instant::now() })).collect())
}

pub fn set_thread_slot(i: usize) {
	MY_SLOT.with(|s| *s.borrow_mut() = Some(i));
}

/// Runs `f` on a thread that has never called into the library (thread-local state of the subject
/// starts clean, so the history of calls is exactly what `f` does), under the caller's watchdog slot.
pub fn in_fresh_thread<R: Send>(f: impl FnOnce() -> R + Send) -> R {
	let slot = MY_SLOT.with(|s| *s.borrow());
	std::thread::scope(|sc| {
		sc.spawn(move || {
			MY_SLOT.with(|s| *s.borrow_mut() = slot);
			f()
		})
		.join()
		.unwrap_or_else(|e| panic::resume_unwind(e))
	})
}

/// Calls into the library that a check makes *outside* its enumeration (building a base archive,
/// counting the read calls of a clean run) are put under the watchdog too: a synthetic case is
/// registered for the calling thread unless a real one is running. A hang there ends the run with a
/// verdict and a replayable artefact (oracles `prepass_read_slp` / `prepass_read_slpp`), instead of
/// a check that never returns.
pub struct SlotGuard(bool);

impl Drop for SlotGuard {
	fn drop(&mut self) {
		if self.0 {
			slot_end();
		}
	}
}

pub fn prepass(oracle: &'static str, input: &[u8], p: &P) -> SlotGuard {
	if CTX.get().is_none() {
		return SlotGuard(false);
	}
	if MY_SLOT.with(|s| s.borrow().is_none()) {
		// the main thread: the last slot is its own (workers use 0..threads)
		set_thread_slot(255);
		start_watchdog();
	}
	let busy = MY_SLOT.with(|s| s.borrow().map_or(true, |i| slots()[i].lock().unwrap().case.is_some()));
	if busy {
		return SlotGuard(false);
	}
	let mut p = p.clone();
	p.class = "pre-pass";
	slot_begin(&CaseRef { oracle, input: Arc::new(input.to_vec()), p, label: Arc::from("a call outside the enumeration (base / reference run)") });
	SlotGuard(true)
}

pub fn slot_begin(c: &CaseRef) {
	MY_SLOT.with(|s| {
		if let Some(i) = *s.borrow() {
			let mut g = slots()[i].lock().unwrap();
			g.case = Some(c.clone());
			g.since = Instant::now();
		}
	});
	SLEEPS_IN_CASE.with(|s| *s.borrow_mut() = 0);
}

pub fn slot_end() {
	MY_SLOT.with(|s| {
		if let Some(i) = *s.borrow() {
			slots()[i].lock().unwrap().case = None;
		}
	});
}

/// Called from the interposed sleep. Returns normally for the first few sleeps of a case; a case
/// that keeps sleeping is a livelock: reported and the process ends with a verdict.
pub fn on_sleep() {
	SLEEP_TOTAL.fetch_add(1, Ordering::Relaxed);
	let n = SLEEPS_IN_CASE.with(|s| {
		*s.borrow_mut() += 1;
		*s.borrow()
	});
	if n >= LIVELOCK_SLEEPS {
		let case = MY_SLOT.with(|s| s.borrow().and_then(|i| slots()[i].lock().unwrap().case.clone()));
		match case {
			Some(c) => fatal_case(&c, "livelock", &format!("sleeps {} times without finishing (wait-for-more-data loop on a finite input)", n)),
			None => {
				eprintln!("machinery: livelock outside a case");
				std::process::exit(2)
			}
		}
	}
}

static FATAL_ONCE: Mutex<()> = Mutex::new(());

/// A case that cannot return (hang / livelock): report right away and exit with the verdict.
pub fn fatal_case(c: &CaseRef, symptom: &str, msg: &str) -> ! {
	let _g = FATAL_ONCE.lock();
	let cx = ctx();
	let key = format!("{}|{}|{}|{}", cx.prop, c.oracle, c.p.class, symptom);
	let label = if c.label.is_empty() { format!("oracle {} params {}", c.oracle, c.p.to_json()) } else { c.label.to_string() };
	let v = Viol { key, msg: format!("{}: {}", label, msg) };
	let art = artefact(c, &v);
	cx.stats.viol_count.fetch_add(1, Ordering::Relaxed);
	cx.stats.viols.lock().unwrap().push((v, art));
	cx.cap(format!("run ended early by a {} verdict; coverage counts are those reached at that point", symptom));
	let code = finish_inner(cx, true);
	std::process::exit(code);
}

pub fn start_watchdog() {
	if WATCHDOG_ON.swap(true, Ordering::SeqCst) {
		return;
	}
	std::thread::spawn(|| loop {
		real_sleep(Duration::from_millis(500));
		for s in slots().iter() {
			let stuck = {
				let g = s.lock().unwrap();
				match &g.case {
					Some(c) if g.since.elapsed() > Duration::from_secs(HANG_SECS) => Some(c.clone()),
					_ => None,
				}
			};
			if let Some(c) = stuck {
				fatal_case(&c, "hang", &format!("no result after {} s", HANG_SECS));
			}
		}
		// memory: a subject that allocates without bound (a loop that never ends, a length taken from the
		// input) is stopped long before the machine runs out - the case that has been running longest is the
		// one reported (cases take micro- to milliseconds; one that runs for seconds while memory explodes
		// is the one that loops)
		if let Some(rss) = resident_bytes() {
			if rss > rss_cap() {
				let mut oldest: Option<(CaseRef, Duration)> = None;
				for s in slots().iter() {
					let g = s.lock().unwrap();
					if let Some(c) = &g.case {
						let d = g.since.elapsed();
						if d > Duration::from_secs(2) && oldest.as_ref().map_or(true, |(_, od)| d > *od) {
							oldest = Some((c.clone(), d));
						}
					}
				}
				match oldest {
					Some((c, d)) => fatal_case(&c, "memory", &format!("the process holds {} MB after this case has been running for {:.0} s (cap {} MB): unbounded allocation", rss >> 20, d.as_secs_f64(), rss_cap() >> 20)),
					None => {
						eprintln!("machinery: the process holds {} MB (cap {} MB) and no case has been running for more than 2 s", rss >> 20, rss_cap() >> 20);
						std::process::exit(2);
					}
				}
			}
		}
	});
}

fn resident_bytes() -> Option<u64> {
	let t = std::fs::read_to_string("/proc/self/statm").ok()?;
	let pages: u64 = t.split_whitespace().nth(1)?.parse().ok()?;
	Some(pages * 4096)
}

/// resident-set cap of the engine (VERIF_RSS_GB, default 20; the largest thorough run needs about 4)
fn rss_cap() -> u64 {
	static CAP: OnceLock<u64> = OnceLock::new();
	*CAP.get_or_init(|| std::env::var("VERIF_RSS_GB").ok().and_then(|v| v.parse::<u64>().ok()).unwrap_or(20) << 30)
}

/// a sleep that bypasses the interposed symbols
pub fn real_sleep(d: Duration) {
	let ts = libc::timespec { tv_sec: d.as_secs() as libc::time_t, tv_nsec: d.subsec_nanos() as libc::c_long };
	unsafe {
		libc::syscall(libc::SYS_nanosleep, &ts as *const libc::timespec, std::ptr::null_mut::<libc::timespec>());
	}
}

// ------------------------------------------------------------------ artefacts

pub fn artefact(c: &CaseRef, v: &Viol) -> Value {
	let cx = ctx();
	json!({
		"property": cx.prop,
		"oracle": c.oracle,
		"tier": if cx.quick() {"quick"} else {"thorough"},
		"label": &*c.label,
		"params": c.p.to_json(),
		"input_hex": hex(&c.input),
		"key": v.key,
		"message": v.msg,
	})
}

// ------------------------------------------------------------------ runner

/// Evaluate one case through its oracle with bookkeeping. Returns true if it violated.
pub fn eval_case(oracle_name: &'static str, f: Oracle, input: &Arc<Vec<u8>>, p: &P, label: impl FnOnce() -> String, local: &mut Local) -> bool {
	let cx = ctx();
	let cref = CaseRef { oracle: oracle_name, input: input.clone(), p: p.clone(), label: Arc::from("") };
	slot_begin(&cref);
	let out = f(input, p);
	let slept = SLEEPS_IN_CASE.with(|s| *s.borrow());
	slot_end();
	account_case(cx, cref, out, slept, label, local)
}

/// For enumerations with a fast path that does not go through the oracle function: the fast path
/// failed on this case (`first_msg`). The oracle is evaluated for the artefact and the message,
/// but the verdict of the *first* evaluation is what counts - if the re-evaluation passes, the
/// failure depends on what the same thread did before, and is recorded as such (finish() decides by
/// a single-thread confirmation run whether it is reproducible).
pub fn eval_flagged(oracle_name: &'static str, f: Oracle, input: &Arc<Vec<u8>>, p: &P, label: impl FnOnce() -> String, first_msg: String, local: &mut Local) -> bool {
	let cx = ctx();
	let cref = CaseRef { oracle: oracle_name, input: input.clone(), p: p.clone(), label: Arc::from("") };
	slot_begin(&cref);
	let mut out = f(input, p);
	let slept = SLEEPS_IN_CASE.with(|s| *s.borrow());
	slot_end();
	if out.viol.is_none() {
		out.viol = Some(Viol {
			key: format!("{}|{}|{}|first-evaluation-only", cx.prop, oracle_name, p.class),
			msg: format!("the first evaluation of this case failed ({}) but evaluating it again did not: the result depends on what the thread did before", first_msg),
		});
	}
	account_case(cx, cref, out, slept, label, local)
}

fn account_case(cx: &'static Arc<Ctx>, cref: CaseRef, out: Out, slept: u32, label: impl FnOnce() -> String, local: &mut Local) -> bool {
	let (oracle_name, input, p) = (cref.oracle, &cref.input.clone(), &cref.p.clone());
	local.evaluations += 1;
	local.transitions += out.transitions;
	if out.nontrivial {
		local.nontrivial += 1;
		local.inputs.insert(case_hash(input, p));
	}
	for s in &out.states {
		local.states.insert(*s);
	}
	if out.states.is_empty() {
		// pure-function and black-box oracles: a state is a distinct observation class
		local.states.insert(out.obs);
	}
	local.outcomes.insert(out.obs);
	let mut viol = out.viol;
	if viol.is_none() && slept > 0 {
		viol = Some(Viol {
			key: format!("{}|{}|{}|sleeps", cx.prop, oracle_name, p.class),
			msg: format!("slept {} times while reading a finite in-memory input", slept),
		});
	}
	if let Some(v) = viol {
		let n = cx.stats.viol_count.fetch_add(1, Ordering::Relaxed);
		let mut g = cx.stats.viols.lock().unwrap();
		// keep the first few per key, bounded overall
		let same = g.iter().filter(|(x, _)| x.key == v.key).count();
		if same < 3 && (n < 100_000 || same == 0) && g.len() < 2000 {
			// (labels of very long games are cut: the artefact carries the input itself)
			let mut l = label();
			if l.len() > 600 {
				let mut cut = 600;
				while !l.is_char_boundary(cut) {
					cut -= 1;
				}
				l.truncate(cut);
				l.push_str(" ...");
			}
			let cref = CaseRef { label: Arc::from(l), ..cref };
			// (very long messages - a 65,537-row id list - are cut; the artefact carries the case itself)
			let mut m = v.msg.clone();
			if m.len() > 2000 {
				let mut cut = 2000;
				while !m.is_char_boundary(cut) {
					cut -= 1;
				}
				m.truncate(cut);
				m.push_str(" ...");
			}
			let v2 = Viol { key: v.key.clone(), msg: format!("{}: {}", cref.label, m) };
			let art = artefact(&cref, &v2);
			g.push((v2, art));
		}
		true
	} else {
		if local.evaluations <= 2 || (local.evaluations % 4099 == 0 && local.samples.len() < 4) {
			let l = label();
			local.samples.push(json!({"oracle": oracle_name, "case": l, "params": p.to_json(), "input_len": input.len()}));
		}
		false
	}
}

pub fn xx(b: &[u8]) -> u64 {
	xxhash_rust::xxh3::xxh3_64(b)
}

pub fn case_hash(input: &[u8], p: &P) -> u64 {
	let mut h = xx(input);
	h = fnv_mix(h, (p.skip as u64) | ((p.hash as u64) << 1) | ((p.comp as u64) << 2));
	for x in p.n {
		h = fnv_mix(h, x as u64);
	}
	if let Some(s) = &p.s {
		h = fnv_mix(h, xx(s.as_bytes()));
	}
	fnv_mix(h, xx(p.class.as_bytes()))
}

#[derive(Default)]
pub struct Local {
	pub evaluations: u64,
	pub transitions: u64,
	pub nontrivial: u64,
	pub states: HashSet<u64>,
	pub outcomes: HashSet<u64>,
	pub inputs: HashSet<u64>,
	pub samples: Vec<Value>,
	/// cases of a by-construction duplicate-free bulk enumeration (too many to hash individually)
	pub bulk: u64,
}

impl Local {
	pub fn merge(self) {
		let cx = ctx();
		cx.stats.evaluations.fetch_add(self.evaluations, Ordering::Relaxed);
		cx.stats.transitions.fetch_add(self.transitions, Ordering::Relaxed);
		cx.stats.nontrivial.fetch_add(self.nontrivial, Ordering::Relaxed);
		cx.stats.states.lock().unwrap().extend(self.states);
		cx.stats.outcomes.lock().unwrap().extend(self.outcomes);
		cx.stats.distinct_inputs.lock().unwrap().extend(self.inputs);
		cx.stats.bulk.fetch_add(self.bulk, Ordering::Relaxed);
		let mut g = cx.stats.samples.lock().unwrap();
		for s in self.samples {
			if g.len() < 12 {
				g.push(s);
			}
		}
	}
}

/// Run `work` over all items of `items` on all worker threads. Items are pulled in order from a
/// shared iterator (deterministic set of cases; scheduling only affects which thread runs which).
pub fn par_each<T: Send, I: Iterator<Item = T> + Send>(items: I, work: impl Fn(T, &mut Local) + Sync) {
	let cx = ctx();
	start_watchdog();
	let it = Mutex::new(items);
	let work = &work;
	let it = &it;
	std::thread::scope(|s| {
		for t in 0..cx.threads {
			std::thread::Builder::new()
				.stack_size(64 << 20)
				.spawn_scoped(s, move || {
					set_thread_slot(t);
					let mut local = Local::default();
					loop {
						let batch: Vec<T> = {
							let mut g = it.lock().unwrap();
							let mut b = Vec::with_capacity(16);
							for _ in 0..16 {
								match g.next() {
									Some(x) => b.push(x),
									None => break,
								}
							}
							b
						};
						if batch.is_empty() {
							break;
						}
						// a broken tree can make every case fail slowly: the verdict is settled long before
						if cx.stats.viol_count.load(Ordering::Relaxed) > 2000 {
							if !STOPPED_EARLY.swap(true, Ordering::SeqCst) {
								cx.cap("enumeration stopped early after more than 2000 violating cases".into());
							}
							break;
						}
						for x in batch {
							work(x, &mut local);
						}
					}
					local.merge();
				})
				.unwrap();
		}
	});
}

// ------------------------------------------------------------------ known findings + finish

#[derive(Clone, Debug)]
pub struct Known {
	pub property: String,
	pub key: String,
	pub what: String,
}

pub fn load_known() -> Vec<Known> {
	let path = format!("{}/known_findings.json", verif_home());
	let txt = match std::fs::read_to_string(&path) {
		Ok(t) => t,
		Err(_) => return vec![],
	};
	let v: Value = match serde_json::from_str(&txt) {
		Ok(v) => v,
		Err(e) => {
			eprintln!("machinery: known_findings.json does not parse: {}", e);
			std::process::exit(2);
		}
	};
	v["findings"]
		.as_array()
		.map(|a| {
			a.iter()
				.map(|f| Known {
					property: f["property"].as_str().unwrap_or("").to_string(),
					key: f["key"].as_str().unwrap_or("").to_string(),
					what: f["what"].as_str().unwrap_or("").to_string(),
				})
				.collect()
		})
		.unwrap_or_default()
}

pub fn finish(cx: &Ctx) -> ! {
	let code = finish_inner(cx, false);
	std::process::exit(code)
}

fn finish_inner(cx: &Ctx, early: bool) -> i32 {
	let known = load_known();
	let viols = cx.stats.viols.lock().unwrap().clone();
	let mut unknown: Vec<(Viol, Value)> = vec![];
	let mut known_hits: BTreeMap<String, (String, u64)> = BTreeMap::new();
	for (v, art) in viols {
		match known.iter().find(|k| k.property == cx.prop && k.key == v.key) {
			Some(k) => {
				let e = known_hits.entry(k.key.clone()).or_insert((k.what.clone(), 0));
				e.1 += 1;
			}
			None => unknown.push((v, art)),
		}
	}
	for (key, (what, _n)) in &known_hits {
		println!("KNOWN-FINDING: property={} {} [{}]", cx.prop, what, key);
	}
	if std::env::var("VERIF_DEBUG").is_ok() {
		let mut keys: Vec<&String> = unknown.iter().map(|(v, _)| &v.key).collect();
		keys.sort();
		keys.dedup();
		for k in keys {
			eprintln!("DEBUG-KEY {}", k);
		}
	}
	if std::env::var("VERIF_CONFIRM").is_ok() {
		// confirmation run (see below): only the keys matter
		let mut keys: Vec<&String> = unknown.iter().map(|(v, _)| &v.key).collect();
		keys.sort();
		keys.dedup();
		for k in keys {
			println!("CONFIRM-KEY {}", k);
		}
		return if unknown.is_empty() { 0 } else { 1 };
	}
	let mut code = 0;
	let mut reported = HashSet::new();
	let mut confirmed = 0;
	let mut unconfirmed: Vec<(String, String)> = vec![];
	for (v, art) in &unknown {
		if !reported.insert(v.key.clone()) {
			continue;
		}
		let dir = format!("{}/replays/{}", verif_home(), cx.prop);
		let _ = std::fs::create_dir_all(&dir);
		let body = serde_json::to_string_pretty(art).unwrap();
		let path = format!("{}/{:016x}.json", dir, fnv(body.as_bytes()));
		if let Err(e) = std::fs::write(&path, &body) {
			eprintln!("machinery: cannot write replay {}: {}", path, e);
			return 2;
		}
		// determinism: the same case must fail the same way in a fresh process
		if !cx.replay_mode && !early {
			match std::process::Command::new(std::env::current_exe().unwrap()).arg("replay").arg(&path).arg("--quiet").output() {
				Ok(o) => {
					let so = String::from_utf8_lossy(&o.stdout);
					let same = so.lines().any(|l| l.trim() == format!("REPLAY-KEY {}", v.key))
						|| (v.key.contains("aborted-by-signal") && o.status.code().is_none());
					if !same {
						// Not reproducible from a fresh process. If it still fails, twice, when the oracle is
						// re-run here - in the process that has executed the other cases before - the library
						// carries state from one call to the next (a cache, a static): the failing history is
						// "this case after the earlier ones", and that is a verdict. Otherwise the harness is
						// nondeterministic and nothing is reported.
						let again = |art: &Value| -> Option<String> {
							let f = crate::checks::oracle_by_name(art["oracle"].as_str()?)?;
							let input = unhex(art["input_hex"].as_str().unwrap_or(""));
							let p = P::from_json(&art["params"]);
							f(&input, &p).viol.map(|x| x.key)
						};
						if again(art).as_deref() == Some(v.key.as_str()) && again(art).as_deref() == Some(v.key.as_str()) {
							let mut art2 = art.clone();
							art2["history_dependent"] = json!(true);
							art2["note"] = json!("fails only in a process that has made other calls into the library before (state carried across calls); replaying this single case in a fresh process passes");
							let _ = std::fs::write(&path, serde_json::to_string_pretty(&art2).unwrap());
							println!("VIOLATION property={} replay={}", cx.prop, path);
							println!("  {}", v.msg);
							println!("  (history-dependent: reproduced twice in the exploring process, not from a fresh process - the library keeps state across calls)");
							confirmed += 1;
							code = 1;
							continue;
						}
						// Last resort: the whole exploration again in a fresh process on ONE thread, i.e. with a
						// fixed order of calls into the library. Every input of the library is owned by the harness
						// (bytes, read schedule, clocks), so if the same verdict comes back the failing history is
						// "the calls this check makes, in order" - the library keeps state from call to call.
						if std::env::var("VERIF_CONFIRM").is_err() {
							let tier = if cx.quick() { "quick" } else { "thorough" };
							let o2 = std::process::Command::new(std::env::current_exe().unwrap()).arg(cx.prop).arg("--tier").arg(tier).env("VERIF_THREADS", "1").env("VERIF_CONFIRM", "1").output();
							if let Ok(o2) = o2 {
								let so2 = String::from_utf8_lossy(&o2.stdout);
								if so2.lines().any(|l| l.trim() == format!("CONFIRM-KEY {}", v.key)) {
									println!("VIOLATION property={} replay={}", cx.prop, path);
									println!("  {}", v.msg);
									println!("  (history-dependent: not reproducible as a single call in a fresh process, but reproduced by running this check on one thread, `VERIF_THREADS=1 ./check {}` - the library keeps state across calls)", cx.prop);
									confirmed += 1;
									code = 1;
									continue;
								}
							}
						}
						// not reproducible in any of the three ways: not a verdict. Other violations of this run may
						// still be; if none is, the run ends as a machinery failure below.
						let _ = std::fs::remove_file(&path);
						unconfirmed.push((v.key.clone(), so.to_string()));
						continue;
					}
				}
				Err(e) => {
					eprintln!("machinery: cannot spawn replay: {}", e);
					return 2;
				}
			}
		}
		println!("VIOLATION property={} replay={}", cx.prop, path);
		println!("  {}", v.msg);
		confirmed += 1;
		code = 1;
		if confirmed >= 20 {
			println!("  (further distinct violations not listed)");
			break;
		}
	}
	if !unconfirmed.is_empty() {
		for (k, so) in &unconfirmed {
			eprintln!("machinery: a violation was not reproduced, neither from a fresh process nor in this one nor by a one-thread run (nondeterministic harness?)\n  key: {}\n  replay said: {}", k, so.trim());
		}
		if confirmed == 0 {
			return 2;
		}
	}
	write_evidence(cx, unknown.len() as u64, &known_hits);
	let ev = cx.stats.evaluations.load(Ordering::Relaxed);
	println!(
		"{} {} tier={} evaluations={} states={} transitions={} distinct_outcomes={} violations={} known={} wall={:.1}s",
		cx.prop,
		if code == 0 { "HELD" } else { "VIOLATED" },
		if cx.quick() { "quick" } else { "thorough" },
		ev,
		cx.stats.states.lock().unwrap().len(),
		cx.stats.transitions.load(Ordering::Relaxed),
		cx.stats.outcomes.lock().unwrap().len(),
		unknown.len(),
		known_hits.len(),
		cx.start.elapsed().as_secs_f64()
	);
	code
}

fn write_evidence(cx: &Ctx, violations: u64, known_hits: &BTreeMap<String, (String, u64)>) {
	if cx.replay_mode {
		return;
	}
	let notes = cx.stats.notes.lock().unwrap().clone();
	let caps = cx.stats.caps.lock().unwrap().clone();
	let evaluations = cx.stats.evaluations.load(Ordering::Relaxed);
	let states = cx.stats.states.lock().unwrap().len() as u64;
	let transitions = cx.stats.transitions.load(Ordering::Relaxed);
	let mut samples = cx.stats.samples.lock().unwrap().clone();
	if samples.is_empty() {
		samples.push(json!("no case completed"));
	}
	let mut coverage = serde_json::Map::new();
	coverage.insert("evaluations".into(), json!(evaluations));
	coverage.insert("distinct_nontrivial".into(), json!(cx.stats.distinct_inputs.lock().unwrap().len() as u64 + cx.stats.bulk.load(Ordering::Relaxed)));
	coverage.insert("nontrivial_evaluations".into(), json!(cx.stats.nontrivial.load(Ordering::Relaxed)));
	coverage.insert("states".into(), json!(states));
	coverage.insert("transitions".into(), json!(transitions));
	coverage.insert("traces_validated_against_impl".into(), json!(evaluations));
	coverage.insert("distinct_outcomes".into(), json!(cx.stats.outcomes.lock().unwrap().len()));
	coverage.insert("samples".into(), json!(samples));
	coverage.insert("caps_hit".into(), json!(caps));
	coverage.insert(
		"known_findings_reobserved".into(),
		json!(known_hits.iter().map(|(k, (w, n))| json!({"key": k, "what": w, "cases_recorded": n})).collect::<Vec<_>>()),
	);
	let mut assumptions: Vec<Value> = vec![];
	for (k, v) in notes {
		if k == "assumptions" {
			if let Some(a) = v.as_array() {
				assumptions = a.clone();
			}
			continue;
		}
		coverage.insert(k, v);
	}
	let ev = json!({
		"property_id": cx.prop,
		"tier": if cx.quick() {"quick"} else {"thorough"},
		"seed": cx.seed,
		"level": cx.level,
		"coverage": Value::Object(coverage),
		"assumptions": assumptions,
		"wall_s": cx.start.elapsed().as_secs_f64(),
		"violations": violations,
	});
	let dir = format!("{}/evidence", verif_home());
	let _ = std::fs::create_dir_all(&dir);
	let path = format!("{}/{}.json", dir, cx.prop);
	if let Err(e) = std::fs::write(&path, serde_json::to_string_pretty(&ev).unwrap()) {
		eprintln!("machinery: cannot write evidence {}: {}", path, e);
		std::process::exit(2);
	}
}
