mod bfs;
mod checks;
mod common;
mod env;
mod gen;
mod hist;
mod inc;
mod model;
mod ops;
mod rec;
mod spec;
mod tarfmt;
mod ubj;
mod util;
mod view;

use util::*;

fn usage() -> ! {
	eprintln!("usage: mc <C01..C20> [--tier quick|thorough] | mc replay <path> [--quiet] | mc selfcheck");
	std::process::exit(2)
}

fn main() {
	let args: Vec<String> = std::env::args().collect();
	if args.len() < 2 {
		usage();
	}
	install_panic_hook();
	if let Err(e) = spec::self_check() {
		eprintln!("machinery: model self-check failed: {}", e);
		std::process::exit(2);
	}
	if let Err(e) = env::clock_self_test() {
		eprintln!("machinery: {}", e);
		std::process::exit(2);
	}
	match args[1].as_str() {
		"replay" => {
			let path = args.get(2).unwrap_or_else(|| usage());
			let quiet = args.iter().any(|a| a == "--quiet");
			let txt = std::fs::read_to_string(path).unwrap_or_else(|e| {
				eprintln!("machinery: cannot read {}: {}", path, e);
				std::process::exit(2)
			});
			let v: serde_json::Value = serde_json::from_str(&txt).unwrap();
			let prop: &'static str = Box::leak(v["property"].as_str().unwrap().to_string().into_boxed_str());
			let tier = if v["tier"] == "thorough" { Tier::Thorough } else { Tier::Quick };
			init_ctx(prop, checks::level(prop), tier, true);
			let oname = v["oracle"].as_str().unwrap();
			let f = checks::oracle_by_name(oname).unwrap_or_else(|| {
				eprintln!("machinery: unknown oracle {}", oname);
				std::process::exit(2)
			});
			let input = unhex(v["input_hex"].as_str().unwrap_or(""));
			let p = P::from_json(&v["params"]);
			start_watchdog();
			set_thread_slot(0);
			let cref = CaseRef { oracle: Box::leak(oname.to_string().into_boxed_str()), input: std::sync::Arc::new(input.clone()), p: p.clone(), label: std::sync::Arc::from(v["label"].as_str().unwrap_or("")) };
			slot_begin(&cref);
			let out = f(&input, &p);
			slot_end();
			match out.viol {
				Some(vi) => {
					println!("REPLAY-KEY {}", vi.key);
					if !quiet {
						println!("case: {}", v["label"].as_str().unwrap_or(""));
						println!("violation: {}", vi.msg);
					}
					std::process::exit(1);
				}
				None => {
					println!("REPLAY-OK");
					std::process::exit(0);
				}
			}
		}
		"selfcheck" => {
			println!("model self-check ok; virtual clock ok");
		}
		prop => {
			let tier = match args.iter().position(|a| a == "--tier").and_then(|i| args.get(i + 1)).map(|s| s.as_str()) {
				Some("thorough") => Tier::Thorough,
				Some("quick") | None => match std::env::var("VERIF_TIER").as_deref() {
					Ok("thorough") if !args.iter().any(|a| a == "--tier") => Tier::Thorough,
					_ => Tier::Quick,
				},
				_ => usage(),
			};
			let prop: &'static str = Box::leak(prop.to_string().into_boxed_str());
			init_ctx(prop, checks::level(prop), tier, false);
			if !checks::run(prop) {
				eprintln!("machinery: unknown property {}", prop);
				std::process::exit(2);
			}
		}
	}
}
