mod bfs;
mod checks;
mod common;
mod env;
mod gen;
mod hist;
mod inc;
mod model;
mod ops;
mod rec;
mod spec;
mod tarfmt;
mod ubj;
mod util;
mod view;

use util::*;

fn usage() -> ! {
	eprintln!("usage: mc <C01..C20> [--tier quick|thorough] | mc replay <path> [--quiet] | mc selfcheck");
	std::process::exit(2)
}

fn main() {
	let args: Vec<String> = std::env::args().collect();
	if args.len() < 2 {
		usage();
	}
	install_panic_hook();
	// memory cap for the engine: a subject that allocates without bound (a length taken from the input, a
	// loop that never ends) must take down this process - allocation failure aborts - and not the machine.
	// The abort is a machinery exit (signal), never a verdict; VERIF_MEM_GB overrides the 40 GB default.
	{
		let gb: u64 = std::env::var("VERIF_MEM_GB").ok().and_then(|v| v.parse().ok()).unwrap_or(40);
		let lim = libc::rlimit { rlim_cur: gb << 30, rlim_max: gb << 30 };
		unsafe {
			libc::setrlimit(libc::RLIMIT_AS, &lim);
		}
	}
	if let Err(e) = spec::self_check() {
		eprintln!("machinery: model self-check failed: {}", e);
		std::process::exit(2);
	}
	if let Err(e) = env::clock_self_test() {
		eprintln!("machinery: {}", e);
		std::process::exit(2);
	}
	if let Err(e) = env::wall_clock_self_test() {
		eprintln!("machinery: {}", e);
		std::process::exit(2);
	}
	env::install_logger();
	match args[1].as_str() {
		"replay" => {
			let path = args.get(2).unwrap_or_else(|| usage());
			let quiet = args.iter().any(|a| a == "--quiet");
			let txt = std::fs::read_to_string(path).unwrap_or_else(|e| {
				eprintln!("machinery: cannot read {}: {}", path, e);
				std::process::exit(2)
			});
			let v: serde_json::Value = serde_json::from_str(&txt).unwrap();
			let prop: &'static str = Box::leak(v["property"].as_str().unwrap().to_string().into_boxed_str());
			let tier = if v["tier"] == "thorough" { Tier::Thorough } else { Tier::Quick };
			init_ctx(prop, checks::level(prop), tier, true);
			let oname = v["oracle"].as_str().unwrap();
			let f = checks::oracle_by_name(oname).unwrap_or_else(|| {
				eprintln!("machinery: unknown oracle {}", oname);
				std::process::exit(2)
			});
			let input = unhex(v["input_hex"].as_str().unwrap_or(""));
			let p = P::from_json(&v["params"]);
			start_watchdog();
			set_thread_slot(0);
			let cref = CaseRef { oracle: Box::leak(oname.to_string().into_boxed_str()), input: std::sync::Arc::new(input.clone()), p: p.clone(), label: std::sync::Arc::from(v["label"].as_str().unwrap_or("")) };
			slot_begin(&cref);
			let out = f(&input, &p);
			slot_end();
			match out.viol {
				Some(vi) => {
					println!("REPLAY-KEY {}", vi.key);
					if !quiet {
						println!("case: {}", v["label"].as_str().unwrap_or(""));
						println!("violation: {}", vi.msg);
					}
					std::process::exit(1);
				}
				None => {
					println!("REPLAY-OK");
					std::process::exit(0);
				}
			}
		}
		"mk-splitter-artefacts" => {
			init_ctx("C06", "fault_enumeration", Tier::Quick, true);
			checks::c06::write_splitter_artefacts(args.get(2).map(|s| s.as_str()).unwrap_or("."));
		}
		"selfcheck" => {
			println!("model self-check ok; virtual clock ok");
		}
		prop => {
			let tier = match args.iter().position(|a| a == "--tier").and_then(|i| args.get(i + 1)).map(|s| s.as_str()) {
				Some("thorough") => Tier::Thorough,
				Some("quick") | None => match std::env::var("VERIF_TIER").as_deref() {
					Ok("thorough") if !args.iter().any(|a| a == "--tier") => Tier::Thorough,
					_ => Tier::Quick,
				},
				_ => usage(),
			};
			let prop: &'static str = Box::leak(prop.to_string().into_boxed_str());
			init_ctx(prop, checks::level(prop), tier, false);
			if !checks::run(prop) {
				eprintln!("machinery: unknown property {}", prop);
				std::process::exit(2);
			}
		}
	}
}


#[cfg(test)]
mod regressions {
	//! Plain unit tests that replay the recorded findings without the explorer.
	use super::*;

	fn run_artefact(path: &std::path::Path) -> Option<Viol> {
		let v: serde_json::Value = serde_json::from_str(&std::fs::read_to_string(path).unwrap()).unwrap();
		let prop: &'static str = Box::leak(v["property"].as_str().unwrap().to_string().into_boxed_str());
		init_ctx(prop, checks::level(prop), Tier::Quick, true);
		let f = checks::oracle_by_name(v["oracle"].as_str().unwrap()).expect("oracle");
		let input = unhex(v["input_hex"].as_str().unwrap_or(""));
		let p = P::from_json(&v["params"]);
		f(&input, &p).viol
	}

	fn artefacts(sub: &str) -> Vec<std::path::PathBuf> {
		let mut v: Vec<_> = std::fs::read_dir(format!("{}/findings/{}", verif_home(), sub)).unwrap().filter_map(|e| e.ok()).map(|e| e.path()).filter(|p| p.extension().map_or(false, |e| e == "json")).collect();
		v.sort();
		v
	}

	/// every repaired finding stays repaired (deep-metadata runs in-process here: with the fix it returns Err)
	#[test]
	fn fixed_findings_stay_fixed() {
		install_panic_hook();
		let mut bad = vec![];
		for a in artefacts("fixed") {
			// the process-wide context can only be initialised once; violations only need the oracle's verdict
			if let Some(v) = run_artefact(&a) {
				bad.push(format!("{}: {}", a.display(), v.msg));
			}
		}
		assert!(bad.is_empty(), "regressed findings:\n{}", bad.join("\n"));
	}

	/// every open finding is still observed with exactly its recorded key
	#[test]
	fn open_findings_are_still_observed() {
		install_panic_hook();
		let known: Vec<String> = load_known().into_iter().map(|k| k.key).collect();
		for a in artefacts("open") {
			match run_artefact(&a) {
				Some(v) => assert!(known.contains(&v.key), "{}: observed key {} is not a listed known finding", a.display(), v.key),
				None => panic!("{}: the open finding is no longer observed - move it to fixed", a.display()),
			}
		}
	}
}
