//! Independent minimal tar reader / writer (512-byte ustar/GNU headers, octal sizes, checksum),
//! so that the .slpp container is not judged with the `tar` crate peppi itself uses.

#![allow(dead_code)]

#[derive(Clone, Debug, PartialEq)]
pub struct Entry {
	pub name: String,
	pub data: Vec<u8>,
	/// offset of the header in the archive
	pub offset: usize,
}

fn octal(b: &[u8]) -> Result<usize, String> {
	let s: String = b.iter().take_while(|c| **c != 0 && **c != b' ').map(|c| *c as char).collect();
	if s.is_empty() {
		return Ok(0);
	}
	usize::from_str_radix(s.trim(), 8).map_err(|e| format!("bad octal {:?}: {}", s, e))
}

pub fn checksum(h: &[u8]) -> u32 {
	let mut sum = 0u32;
	for (i, b) in h.iter().enumerate().take(512) {
		sum += if (148..156).contains(&i) { 32 } else { *b as u32 };
	}
	sum
}

/// Strict walk: every header checksum must match; the archive must end with two zero blocks.
pub fn entries(a: &[u8]) -> Result<Vec<Entry>, String> {
	let mut out = vec![];
	let mut pos = 0usize;
	loop {
		if pos + 512 > a.len() {
			return Err(format!("archive ends at {} without the end-of-archive marker", a.len()));
		}
		let h = &a[pos..pos + 512];
		if h.iter().all(|b| *b == 0) {
			// end marker: two zero blocks
			if pos + 1024 > a.len() || !a[pos..pos + 1024].iter().all(|b| *b == 0) {
				return Err("single zero block at the end".into());
			}
			if !a[pos..].iter().all(|b| *b == 0) {
				return Err("data after the end-of-archive marker".into());
			}
			return Ok(out);
		}
		let name: String = h[..100].iter().take_while(|c| **c != 0).map(|c| *c as char).collect();
		let size = octal(&h[124..136])?;
		let want = octal(&h[148..156])? as u32;
		if checksum(h) != want {
			return Err(format!("header checksum mismatch for {:?}", name));
		}
		let typeflag = h[156];
		if typeflag != b'0' && typeflag != 0 {
			return Err(format!("unexpected entry type {:?} for {:?}", typeflag as char, name));
		}
		let start = pos + 512;
		if start + size > a.len() {
			return Err(format!("entry {:?} ({} bytes) runs past the archive end", name, size));
		}
		out.push(Entry { name, data: a[start..start + size].to_vec(), offset: pos });
		pos = start + (size + 511) / 512 * 512;
	}
}

pub fn header(name: &str, size: usize) -> [u8; 512] {
	let mut h = [0u8; 512];
	h[..name.len()].copy_from_slice(name.as_bytes());
	h[100..108].copy_from_slice(b"0000644\0");
	h[108..116].copy_from_slice(b"0000000\0");
	h[116..124].copy_from_slice(b"0000000\0");
	h[124..136].copy_from_slice(format!("{:011o}\0", size).as_bytes());
	h[136..148].copy_from_slice(b"00000000000\0");
	h[156] = b'0';
	h[257..263].copy_from_slice(b"ustar ");
	h[263..265].copy_from_slice(b" \0");
	let c = checksum(&h);
	h[148..156].copy_from_slice(format!("{:06o}\0 ", c).as_bytes());
	h
}

pub fn build(entries: &[(String, Vec<u8>)]) -> Vec<u8> {
	let mut out = vec![];
	for (name, data) in entries {
		out.extend_from_slice(&header(name, data.len()));
		out.extend_from_slice(data);
		let pad = (512 - data.len() % 512) % 512;
		out.extend(std::iter::repeat(0u8).take(pad));
	}
	out.extend(std::iter::repeat(0u8).take(1024));
	out
}

/// Header with a raw-byte name (need not be UTF-8) and a type flag; names longer than 100 bytes are cut
/// (see `build_raw`, which precedes them with a GNU long-name record).
pub fn header_raw(name: &[u8], size: usize, typeflag: u8) -> [u8; 512] {
	let mut h = [0u8; 512];
	let n = name.len().min(100);
	h[..n].copy_from_slice(&name[..n]);
	h[100..108].copy_from_slice(b"0000644\0");
	h[108..116].copy_from_slice(b"0000000\0");
	h[116..124].copy_from_slice(b"0000000\0");
	h[124..136].copy_from_slice(format!("{:011o}\0", size).as_bytes());
	h[136..148].copy_from_slice(b"00000000000\0");
	h[156] = typeflag;
	h[257..263].copy_from_slice(b"ustar ");
	h[263..265].copy_from_slice(b" \0");
	let c = checksum(&h);
	h[148..156].copy_from_slice(format!("{:06o}\0 ", c).as_bytes());
	h
}

/// Like `build`, for entries whose names are raw bytes, may be longer than 100 bytes (GNU `L` long-name
/// record in front, as GNU tar writes them) and may be directories (type flag `5`, no data).
pub fn build_raw(entries: &[(Vec<u8>, Vec<u8>, u8)]) -> Vec<u8> {
	let mut out = vec![];
	let mut put = |out: &mut Vec<u8>, h: [u8; 512], data: &[u8]| {
		out.extend_from_slice(&h);
		out.extend_from_slice(data);
		let pad = (512 - data.len() % 512) % 512;
		out.extend(std::iter::repeat(0u8).take(pad));
	};
	for (name, data, typeflag) in entries {
		if name.len() > 100 {
			let mut long = name.clone();
			long.push(0);
			put(&mut out, header_raw(b"././@LongLink", long.len(), b'L'), &long);
		}
		put(&mut out, header_raw(name, data.len(), *typeflag), data);
	}
	out.extend(std::iter::repeat(0u8).take(1024));
	out
}
