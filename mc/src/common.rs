//! Helpers shared by the checks.

#![allow(dead_code)]

use crate::model::{refparse, RefGame};
use crate::util::{ctx, Out, Viol, P};

pub fn machinery(msg: &str) -> ! {
	eprintln!("machinery: {}", msg);
	std::process::exit(2)
}

/// The generated input must be inside the model's domain; otherwise the generator is broken.
pub fn domain(input: &[u8], what: &str) -> RefGame {
	match refparse(input) {
		Ok(g) => g,
		Err(e) => machinery(&format!("{}: generated input is outside the model's domain: {}", what, e)),
	}
}

pub fn viol(oracle: &str, p: &P, symptom: &str, msg: String) -> Option<Viol> {
	Some(Viol { key: format!("{}|{}|{}|{}", ctx().prop, oracle, p.class, symptom), msg })
}

pub fn out_from(rg: &RefGame) -> Out {
	Out {
		obs: 0,
		transitions: rg.events as u64,
		states: rg.state_keys.clone(),
		viol: None,
		nontrivial: rg.has_absence || rg.has_rollback || rg.has_items || rg.n_ends != 1 || rg.metadata_body.is_none() || rg.gecko.is_some(),
	}
}

pub fn first_diff(a: &[u8], b: &[u8]) -> Option<usize> {
	if a == b {
		return None;
	}
	let n = a.len().min(b.len());
	for i in 0..n {
		if a[i] != b[i] {
			return Some(i);
		}
	}
	Some(n)
}
