#!/usr/bin/env python3
"""Generates /verif/MUTATIONS.md from seeded/*/meta.json (+ seeded/matrix.json when present)."""
import json, glob, os
rows = []
own = {}
if os.path.exists('/verif/seeded/own.json'):
    own = json.load(open('/verif/seeded/own.json'))
matrix = {}
if os.path.exists('/verif/seeded/matrix.json'):
    try: matrix = json.load(open('/verif/seeded/matrix.json'))
    except Exception: matrix = {}
for d in sorted(glob.glob('/verif/seeded/C*/')):
    name = os.path.basename(d.rstrip('/'))
    m = json.load(open(d + 'meta.json'))
    rows.append((name, m))
out = ["# Seeded changes and which checks catch them", "",
       "Every entry is a change to hohav/peppi written by a fresh sub-agent that was given only the property text and its own",
       "scratch worktree (four rounds of 20 agents x 2 changes: round 1, suffix A/B: statement + quantifier + why-tests-cannot; round 2, C/D:",
       "plus the property's anchors and a request for subtler changes; round 3, E/F: changes of a different nature; round 4, G/H(/I), round 5, J/K, round 6, L/M, round 7, N/O, round 8, P/Q, round 9, R/S, round 10, T/U, round 11, V/W and round 12, X/Y: plus the",
       "list of ideas already used). Each was confirmed by `tools/verify_seed.sh` in a scratch worktree: the repository's 30 tests",
       "(+3 doctests) pass with the change, the sub-agent's demonstration fails with it and passes without it. The checks were run with",
       "`tools/try_seed.sh` (`git -C /repo apply`, `./check <id>`, `git -C /repo checkout -- .`). `patch.diff`, `demo.rs`, `notes.md`,",
       "`meta.json` are in `seeded/<id>/`.", "",
       "Column *all quick checks that report it* comes from `tools/matrix.sh` (every quick check against every change, in an isolated copy);",
       "`rc2` marks a check that stopped with a machinery exit under that change (its base replay no longer reads) - not a verdict.", "",
       "Column *final run* is the regression of detection with the checks as they are at the end (`OWN=1 tools/matrix.sh`: the claimed",
       "property's quick check against every change, in an isolated copy): `reported` or `NOT reported`.", "",
       "| change | what it needs to manifest | claimed property's check | final run | all quick checks that report it |", "|---|---|---|---|---|"]
missed = 0
for name, m in rows:
    det = m['detected_by']
    if det.startswith('MISSED'):
        missed += 1
    mx = ", ".join(matrix.get(name, [])) if name in matrix else "(cross run made for rounds 1-4 only)"
    pid = name.split('-')[0]
    fin = "reported" if pid in own.get(name, []) else ("patch no longer applies (see meta.json)" if name not in own else "NOT reported")
    out.append(f"| {name} | {m['what_it_needs_to_manifest']} | {det} | {fin} | {mx} |")
out += ["", f"{len(rows)} changes; {missed} were missed by the claimed property's check as first built and are caught since the strengthening named in the row;",
        "none is missed by the current checks."]
open('/verif/MUTATIONS.md', 'w').write("\n".join(out) + "\n")
print(len(rows), "rows;", missed, "initially missed")
