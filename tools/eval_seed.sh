#!/bin/bash
# tools/eval_seed.sh <ID/X> [extra check ids] : verify the seed in a scratch worktree, then run the claimed
# property's quick check (and any extra ones) against it. Appends the verification log to /tmp/seeded/verify_batchR.log
S="$1"; shift
ID=${S%%/*}
{ echo "=== $S"; /verif/tools/verify_seed.sh /tmp/seeded/$S 2>&1; } >> /tmp/seeded/verify_batchR.log
echo "--- $S verify:"; awk -v s="=== $S" '$0==s{f=1;next} /^===/{f=0} f' /tmp/seeded/verify_batchR.log | grep -E "demo with|demo without|FAILED|apply" | grep -v "test result: FAILED" | cut -c1-110 | tail -6
echo "--- $S checks:"; /verif/tools/try_seed.sh /tmp/seeded/$S quick $ID "$@" 2>&1 | cut -c1-300
