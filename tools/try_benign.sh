#!/bin/bash
# tools/try_benign.sh <dir-with-patch.diff> ... : runs every quick check against behaviour-preserving changes
# (no check may report anything), in an isolated scratch copy (/tmp/bn: copy of /repo and of /verif/mc, own
# target dir). Does not touch /repo or /verif/mc/target. Appends to /tmp/benign/results.txt.
set -u
MX=/tmp/bn
rm -rf $MX; mkdir -p $MX/verif
rsync -a --exclude target --exclude .git /repo/ $MX/repo/
rsync -a --exclude target /verif/mc/ $MX/verif/mc/
cp /verif/known_findings.json $MX/verif/
sed -i "s#path = \"/repo\"#path = \"$MX/repo\"#" $MX/verif/mc/Cargo.toml
export VERIF_HOME=$MX/verif VERIF_REPO=$MX/repo CARGO_TARGET_DIR=$MX/target CARGO_NET_OFFLINE=true
cd $MX/repo && git init -q . && git add -A >/dev/null && git -c user.email=x@x -c user.name=x commit -qm base
CHECKS="C01 C02 C03 C04 C05 C06 C07 C08 C09 C10 C11 C12 C13 C14 C15 C16 C17 C18 C19 C20"
for d in "$@"; do
  cd $MX/repo && git checkout -q -- . && git clean -fdq && git apply $d/patch.diff || { echo "$d: patch does not apply" >> /tmp/benign/results.txt; continue; }
  (cd $MX/verif/mc && cargo build --release --offline -q 2>/tmp/benign/build.err) || { echo "$d: build failed" >> /tmp/benign/results.txt; continue; }
  res=""
  for c in $CHECKS; do
    (cd $MX/verif && timeout 900 $MX/target/release/mc $c --tier quick > /tmp/benign/last_$c.out 2>&1); rc=$?
    if [ $rc -ne 0 ]; then res="$res $c:rc$rc"; cp /tmp/benign/last_$c.out $d/alarm_$c.out; fi
  done
  echo "$d:${res:- all 20 held}" >> /tmp/benign/results.txt
done
rm -rf $MX
