#!/bin/bash
# tools/own_slots.sh <slot> <seed names...> : own-check regression for the named seeded changes in a warm isolated
# slot (tools/iso_slot.sh prepare <slot> first); writes /verif/seeded/own.9<slot>.json for tools/matrix_merge.py own
SLOT=$1; shift
OUT=/verif/seeded/own.9$SLOT.json
echo "{" > $OUT.tmp; first=1
for s in "$@"; do
  id=${s%%-*}
  res=$(/verif/tools/iso_slot.sh run $SLOT /verif/seeded/$s/patch.diff $id 2>&1 | grep -E "^$id rc=" | head -1)
  rc=$(echo "$res" | sed -E 's/^[A-Z0-9]+ rc=([0-9]+).*/\1/')
  caught=""
  if [ "$rc" = "1" ]; then caught="\"$id\""; elif [ "$rc" != "0" ]; then caught="\"$id:rc$rc\""; fi
  [ $first -eq 0 ] && echo "," >> $OUT.tmp; first=0
  echo " \"$s\": [$caught]" >> $OUT.tmp
  echo "$s -> $caught"
done
echo "}" >> $OUT.tmp; mv $OUT.tmp $OUT
