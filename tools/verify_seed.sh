#!/bin/bash
# tools/verify_seed.sh <seed dir> : confirms in a scratch worktree that (1) the repo suite passes with
# the patch, (2) the demo fails with it, (3) the demo passes without it.
set -u
DIR="$(cd "$1" && pwd)"
WT=/tmp/verify-wt-$$
git -C /repo worktree add --detach "$WT" HEAD >/dev/null 2>&1 || exit 2
trap 'git -C /repo worktree remove --force "$WT" >/dev/null 2>&1' EXIT
cd "$WT" || exit 2
export CARGO_TARGET_DIR=${VERIFY_TARGET:-/tmp/verify-target}
cp "$DIR/demo.rs" tests/seeded_demo.rs
for f in "$DIR"/common*.rs; do [ -e "$f" ] && cp "$f" tests/; done
nopatch=$(cargo test --offline --test seeded_demo 2>&1 | grep -E "^test result" | tail -1)
git apply "$DIR/patch.diff" || { echo "patch does not apply"; exit 2; }
suite=$(cargo test --offline 2>&1 | grep -E "^test result|error\[|error:" | grep -v "seeded" )
withpatch=$(cargo test --offline --test seeded_demo 2>&1 | grep -E "^test result" | tail -1)
suite_fail=$(cargo test --offline -- --skip nothing 2>&1 | grep -cE "^test .* FAILED" )
echo "demo without patch: $nopatch"
echo "demo with patch:    $withpatch"
echo "suite with patch (incl. demo) failed tests: $suite_fail (expected: only the demo's)"
cargo test --offline 2>&1 | grep -E "^test .* FAILED" | head
