#!/usr/bin/env python3
"""keep_seed.py <ID/X> <needs-text> <detected-by-text>  : copies a verified seeded change from /tmp/seeded into
/verif/seeded/<ID>-<X>/ and writes meta.json."""
import json, os, shutil, sys, re
src = f"/tmp/seeded/{sys.argv[1]}"
pid, x = sys.argv[1].split("/")
dst = f"/verif/seeded/{pid}-{x}"
os.makedirs(dst, exist_ok=True)
for f in ("patch.diff", "demo.rs", "notes.md"):
    shutil.copy(os.path.join(src, f), os.path.join(dst, f))
log = ""
for lf in sorted(os.listdir("/tmp/seeded")):
    if lf.startswith("verify_batch") and lf.endswith(".log"):
        txt = open(os.path.join("/tmp/seeded", lf)).read()
        m = re.search(r"=== %s\n(.*?)(?=\n=== |\Z)" % re.escape(sys.argv[1]), txt, re.S)
        if m: log = m.group(1).strip()
meta = {
    "property": pid,
    "origin": "fresh sub-agent given only the property text and its own scratch worktree",
    "what_it_needs_to_manifest": sys.argv[2],
    "confirmed_by_me": {
        "how": "tools/verify_seed.sh in a scratch worktree of /repo (removed afterwards): demo without patch, repository suite with patch, demo with patch",
        "log": log.splitlines(),
    },
    "checks_run_against_it": "tools/try_seed.sh: git -C /repo apply patch.diff; ./check <id>; git -C /repo checkout -- .",
    "detected_by": sys.argv[3],
}
json.dump(meta, open(os.path.join(dst, "meta.json"), "w"), indent=1)
print("kept", dst)
