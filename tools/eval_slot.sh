#!/bin/bash
# tools/eval_slot.sh <slot> <ID/X> [extra check ids] : like eval_seed.sh but in an isolated slot (tools/iso_slot.sh), so
# several run at once. Verification log goes to /tmp/seeded/verify_batch_<ID>_<X>.log (keep_seed.py reads verify_batch*.log).
SLOT=$1; S="$2"; shift 2
ID=${S%%/*}; X=${S##*/}
L=/tmp/seeded/verify_batch_${ID}_$X.log
{ echo "=== $S"; VERIFY_TARGET=${VERIFY_TARGET:-/tmp/tg11-$ID} /verif/tools/verify_seed.sh /tmp/seeded/$S 2>&1; } > $L
echo "--- $S verify:"; grep -E "demo with|demo without|suite with|FAILED|apply" $L | grep -v "test result: FAILED" | cut -c1-110 | tail -8
echo "--- $S checks:"; /verif/tools/iso_slot.sh run $SLOT /tmp/seeded/$S/patch.diff $ID "$@" 2>&1 | cut -c1-300
