#!/bin/bash
# tools/iso_slot.sh prepare <slot>            : persistent isolated copy /tmp/slot<slot> of /repo and /verif/mc (own target dir), harness built once
# tools/iso_slot.sh run <slot> <patch> <ids..>: apply the patch there, rebuild incrementally, run the named quick checks, revert the patch
# tools/iso_slot.sh drop <slot>               : remove the copy
# Lets several seeded changes be evaluated at the same time without touching /repo or /verif/mc/target.
set -u
CMD=$1; SLOT=$2; shift 2
MX=/tmp/slot$SLOT
export VERIF_HOME=$MX/verif VERIF_REPO=$MX/repo CARGO_TARGET_DIR=$MX/target CARGO_NET_OFFLINE=true
case $CMD in
prepare)
  rm -rf $MX; mkdir -p $MX/verif
  rsync -a --exclude target --exclude .git /repo/ $MX/repo/
  rsync -a --exclude target /verif/mc/ $MX/verif/mc/
  cp /verif/known_findings.json $MX/verif/
  sed -i "s#path = \"/repo\"#path = \"$MX/repo\"#" $MX/verif/mc/Cargo.toml
  cd $MX/repo && git init -q . && git add -A >/dev/null && git -c user.email=x@x -c user.name=x commit -qm base
  (cd $MX/verif/mc && cargo build --release --offline -q 2>&1 | tail -5); echo "slot $SLOT ready";;
run)
  PATCH=$1; shift
  rsync -a --exclude target /verif/mc/ $MX/verif/mc/; sed -i "s#path = \"/repo\"#path = \"$MX/repo\"#" $MX/verif/mc/Cargo.toml
  cp /verif/known_findings.json $MX/verif/
  cd $MX/repo && git checkout -q -- . && git apply $PATCH || { echo "patch does not apply"; exit 2; }
  (cd $MX/verif/mc && cargo build --release --offline -q 2>&1 | tail -5)
  for c in "$@"; do
    out=$(cd $MX/verif && timeout 900 $MX/target/release/mc $c --tier ${TIER:-quick} 2>&1); rc=$?
    echo "$c rc=$rc $(echo "$out" | grep -E '^VIOLATION' | head -1 | cut -c1-120) $(echo "$out" | grep -E 'HELD|VIOLATED|machinery' | tail -1 | cut -c1-160)"
    echo "$out" | grep -E '^  ' | head -1 | cut -c1-300
  done
  cd $MX/repo && git checkout -q -- .;;
drop) rm -rf $MX;;
esac
