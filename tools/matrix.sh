#!/bin/bash
# tools/matrix.sh : runs every quick check against every seeded change, in an isolated scratch copy
# (/tmp/mx: copy of /repo and of /verif/mc, own target dir), and writes /verif/seeded/matrix.json.
# Does not touch /repo or /verif/mc/target. Removes the scratch copy at the end.
# usage: matrix.sh [shard nshards]  - with shards, each writes /verif/seeded/matrix.<shard>.json; merge with
#        tools/matrix_merge.py once all have finished.
set -u
SH=${1:-0}; NSH=${2:-1}
MX=/tmp/mx$SH; [ "${OWN:-0}" = "1" ] && MX=/tmp/mxown$SH
rm -rf $MX; mkdir -p $MX/verif
rsync -a --exclude target --exclude .git /repo/ $MX/repo/
rsync -a --exclude target /verif/mc/ $MX/verif/mc/
cp /verif/known_findings.json $MX/verif/
sed -i "s#path = \"/repo\"#path = \"$MX/repo\"#" $MX/verif/mc/Cargo.toml
export VERIF_HOME=$MX/verif VERIF_REPO=$MX/repo CARGO_TARGET_DIR=$MX/target CARGO_NET_OFFLINE=true
cd $MX/repo && git init -q . && git add -A >/dev/null && git -c user.email=x@x -c user.name=x commit -qm base
OUT=/verif/seeded/matrix.json
[ $NSH -gt 1 ] && OUT=/verif/seeded/matrix.$SH.json
# OWN=1: only the claimed property's check per change (regression of detection with the final checks);
# shards then write /verif/seeded/own.<shard>.json (merge: tools/matrix_merge.py own)
OWN=${OWN:-0}
[ $OWN -eq 1 ] && OUT=/verif/seeded/own.$SH.json
echo "{" > $OUT.tmp
first=1
CHECKS="C01 C02 C03 C04 C05 C06 C07 C08 C09 C10 C11 C12 C13 C14 C15 C16 C17 C18 C19 C20"
n=0
for d in /verif/seeded/C*/; do
  n=$((n+1)); [ $((n % NSH)) -eq $SH ] || continue
  s=$(basename $d)
  # ONLY_NEW=1: skip changes that already have a row in matrix.json
  REF=/verif/seeded/matrix.json; [ $OWN -eq 1 ] && REF=/verif/seeded/own.json
  if [ "${ONLY_NEW:-0}" = "1" ] && grep -q "\"$s\":" $REF 2>/dev/null; then continue; fi
  cd $MX/repo && git checkout -q -- . && git apply $d/patch.diff || { echo "no apply $s"; continue; }
  (cd $MX/verif/mc && cargo build --release --offline -q 2>/dev/null) || { echo "build failed $s"; continue; }
  caught=""
  [ $OWN -eq 1 ] && CHECKS=${s%%-*}
  for c in $CHECKS; do
    (cd $MX/verif && timeout 600 $MX/target/release/mc $c --tier quick >/dev/null 2>&1); rc=$?
    if [ $rc -eq 1 ]; then caught="$caught\"$c\","; elif [ $rc -ne 0 ]; then caught="$caught\"$c:rc$rc\","; fi
  done
  [ $first -eq 0 ] && echo "," >> $OUT.tmp; first=0
  echo " \"$s\": [${caught%,}]" >> $OUT.tmp
  echo "$s -> $caught"
done
echo "}" >> $OUT.tmp
mv $OUT.tmp $OUT
rm -rf $MX
