#!/bin/bash
# tools/try_seed.sh <seed dir containing patch.diff [demo.rs]> <tier> <check ids...>
# Applies the patch to /repo, runs the given checks, reverts. Prints one line per check.
set -u
DIR="$1"; TIER="$2"; shift 2
cd /repo || exit 2
if [ -n "$(git status --porcelain --untracked-files=no)" ]; then echo "repo dirty"; exit 2; fi
if ! git apply "$DIR/patch.diff"; then echo "patch does not apply"; exit 2; fi
trap 'git -C /repo checkout -- . ; (cd /verif/mc && cargo build --release --offline -q 2>/dev/null)' EXIT
for id in "$@"; do
  out=$(cd /verif && timeout 1800 ./check "$id" --tier "$TIER" 2>&1)
  rc=$?
  echo "$id rc=$rc $(echo "$out" | grep -E '^VIOLATION' | head -1 | cut -c1-120) $(echo "$out" | grep -E 'HELD|VIOLATED|machinery' | tail -1 | cut -c1-160)"
  echo "$out" | grep -E '^  ' | head -1 | cut -c1-300
done
