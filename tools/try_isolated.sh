#!/bin/bash
# tools/try_isolated.sh <patch.diff> <check ids...> : applies a patch to an isolated copy of /repo (/tmp/iso, with a
# copy of /verif/mc and its own target dir), runs the named quick checks there and prints their verdict lines.
# Does not touch /repo or /verif/mc/target; removes the copy afterwards.
set -u
PATCH=$1; shift
MX=/tmp/iso$$
rm -rf $MX; mkdir -p $MX/verif
rsync -a --exclude target --exclude .git /repo/ $MX/repo/
rsync -a --exclude target /verif/mc/ $MX/verif/mc/
cp /verif/known_findings.json $MX/verif/
sed -i "s#path = \"/repo\"#path = \"$MX/repo\"#" $MX/verif/mc/Cargo.toml
export VERIF_HOME=$MX/verif VERIF_REPO=$MX/repo CARGO_TARGET_DIR=$MX/target CARGO_NET_OFFLINE=true
cd $MX/repo && git init -q . && git add -A >/dev/null && git -c user.email=x@x -c user.name=x commit -qm base
git apply $PATCH || { echo "patch does not apply"; rm -rf $MX; exit 2; }
(cd $MX/verif/mc && cargo build --release --offline -q 2>&1 | tail -5) 
for c in "$@"; do
  (cd $MX/verif && timeout 900 $MX/target/release/mc $c --tier quick 2>&1 | grep -E "VIOLATION|HELD|VIOLATED|machinery|^  " | head -6 | cut -c1-300); echo "$c rc=${PIPESTATUS[0]}"
done
rm -rf $MX
