#!/usr/bin/env python3
"""Systematic first-order mutation of peppi's hand-written sources, to find gaps in the checks.

For every mutant (one operator application on one line): build the harness against an isolated
copy of the repository (/tmp/mut), run the quick checks in a fixed fast-to-slow order until one
reports a VIOLATION (killed) - survivors are written to the report for manual triage (a survivor
is either an equivalent mutant, a change outside every property, or a gap).

This is a tool for testing the machinery; it is not one of the registered checks.
usage: mutate.py <report.json> [file ...]
"""
import json, os, re, subprocess, sys, time, shutil

MX = "/tmp/mut"
FILES = [
    "src/io/slippi/de.rs", "src/io/slippi/ser.rs", "src/io/slippi/mod.rs", "src/io/mod.rs",
    "src/io/peppi/de.rs", "src/io/peppi/ser.rs", "src/io/peppi/mod.rs",
    "src/io/ubjson/de.rs", "src/io/ubjson/ser.rs", "src/game/mod.rs", "src/game/shift_jis.rs",
    "src/game/immutable.rs",
]
# hand-written heads of the generated frame files (up to the first generated struct)
HEADS = {"src/frame/mutable.rs": 160, "src/frame/immutable/mod.rs": 176, "src/frame/immutable/slippi.rs": 171, "src/frame/immutable/peppi.rs": 290}
ORDER = ["C15", "C11", "C08", "C10", "C02", "C18", "C03", "C01", "C17", "C13", "C04", "C14", "C16", "C19", "C20", "C09", "C06", "C05", "C12", "C07"]

SKIP_LINE = re.compile(r'^\s*(//|use |#\[|#!\[|debug!|trace!|info!|warn!|pub mod|mod |\}|\{|$)')

def mutants_for_line(line):
    out = []
    if SKIP_LINE.match(line):
        return out
    code = line.split("//")[0]
    # do not touch string literals
    def outside_strings(m):
        return code[:m.start()].count('"') % 2 == 0
    pairs = [(r'>=', '>'), (r'<=', '<'), (r'==', '!='), (r'!=', '=='), (r'&&', '||'), (r'\|\|', '&&'),
             (r'(?<![=<>!-])>(?![=>])', '>='), (r'(?<![=<>!-])<(?![=<])', '<='),
             (r' \+ ', ' - '), (r' - ', ' + '), (r'\btrue\b', 'false'), (r'\bfalse\b', 'true'),
             (r'\.lt\(', '.gte('), (r'\.gte\(', '.lt('), (r'\bSome\(([a-z_]+)\) =>', None)]
    for pat, rep in pairs:
        if rep is None:
            continue
        for m in re.finditer(pat, code):
            if not outside_strings(m):
                continue
            # generics / arrows are not comparisons
            if pat.startswith('(?<![=<>!-])') and (re.search(r'(fn |impl|Vec<|Option<|Result<|::<|<R|<W|<F|<T|<const|-> |\w<\w)', code)):
                continue
            new = code[:m.start()] + rep + code[m.end():]
            out.append((f"{pat} -> {rep} @col{m.start()}", new + line[len(code):]))
    for m in re.finditer(r'(?<![\w.])(\d+)(?![\w.\d])', code):
        if not outside_strings(m):
            continue
        n = int(m.group(1))
        for nn in (n + 1, n - 1):
            if nn < 0:
                continue
            new = code[:m.start()] + str(nn) + code[m.end():]
            out.append((f"{n} -> {nn} @col{m.start()}", new + line[len(code):]))
    # statement deletion: a call statement on its own line
    if re.match(r'^\s*[a-z_][\w.\[\]()&*: ]*\)(\?)?;\s*$', code) and 'let ' not in code and 'return' not in code:
        out.append(("delete statement", re.match(r'^\s*', line).group(0) + "();\n"))
    return out

def sh(cmd, cwd=None, timeout=900, env=None):
    # own process group, so that a timeout kills the check itself and not only the shell around it
    p = subprocess.Popen(cmd, shell=True, cwd=cwd, stdout=subprocess.PIPE, stderr=subprocess.STDOUT, env=env, start_new_session=True)
    try:
        out, _ = p.communicate(timeout=timeout)
        return p.returncode, out.decode(errors="replace")
    except subprocess.TimeoutExpired:
        import signal
        try:
            os.killpg(p.pid, signal.SIGKILL)
        except ProcessLookupError:
            pass
        p.wait()
        return 124, "timeout"

def main():
    report = sys.argv[1]
    files = sys.argv[2:] or (FILES + list(HEADS))
    if os.path.exists(MX):
        shutil.rmtree(MX)
    os.makedirs(MX + "/verif")
    sh(f"rsync -a --exclude target --exclude .git /repo/ {MX}/repo/")
    sh(f"rsync -a --exclude target /verif/mc/ {MX}/verif/mc/")
    shutil.copy("/verif/known_findings.json", MX + "/verif/")
    sh(f"sed -i 's#path = \"/repo\"#path = \"{MX}/repo\"#' {MX}/verif/mc/Cargo.toml")
    env = dict(os.environ, VERIF_HOME=MX + "/verif", VERIF_REPO=MX + "/repo", CARGO_TARGET_DIR=MX + "/target", CARGO_NET_OFFLINE="true")
    rc, out = sh("cargo build --release --offline -q", cwd=MX + "/verif/mc", env=env, timeout=1800)
    if rc != 0:
        print("base build failed", out[-2000:]); sys.exit(2)
    results = {"killed": 0, "not_compiling": 0, "survivors": [], "by_check": {}}
    if os.path.exists(report):
        results = json.load(open(report))
    done = set(results.get("done", []))
    for f in files:
        path = f"{MX}/repo/{f}"
        orig = open(path).read()
        lines = orig.splitlines(keepends=True)
        limit = HEADS.get(f, len(lines))
        for i, line in enumerate(lines[:limit]):
            for desc, new in mutants_for_line(line):
                mid = f"{f}:{i+1}:{desc}"
                if mid in done:
                    continue
                mutated = lines[:i] + [new if new.endswith("\n") else new + "\n"] + lines[i+1:]
                open(path, "w").write("".join(mutated))
                rc, out = sh("cargo build --release --offline -q", cwd=MX + "/verif/mc", env=env)
                status = None
                if rc != 0:
                    results["not_compiling"] += 1
                    status = "nocompile"
                else:
                    for c in ORDER:
                        rc, out = sh(f"{MX}/target/release/mc {c} --tier quick", cwd=MX + "/verif", env=env, timeout=600)
                        if rc == 1:
                            results["killed"] += 1
                            results["by_check"][c] = results["by_check"].get(c, 0) + 1
                            status = "killed:" + c
                            break
                        if rc not in (0, 1):
                            # machinery exit under a mutant: the base assumptions of that check are broken;
                            # not a verdict - keep looking, but remember it
                            status = f"rc{rc}:{c}"
                    if status is None or status.startswith("rc"):
                        results["survivors"].append({"id": mid, "line": line.rstrip("\n"), "mutant": new.rstrip("\n"), "note": status})
                        print("SURVIVOR", mid, "|", line.strip(), "=>", new.strip(), flush=True)
                done.add(mid)
                results["done"] = sorted(done)
                json.dump(results, open(report, "w"), indent=1)
        open(path, "w").write(orig)
    print("killed", results["killed"], "not compiling", results["not_compiling"], "survivors", len(results["survivors"]))

if __name__ == "__main__":
    main()
