#!/usr/bin/env python3
"""Generates /verif/MANIFEST.json from the table below (kept in one place so it stays valid)."""
import json, os, sys

HERE = os.path.dirname(os.path.dirname(os.path.abspath(__file__)))

# id -> (category, technique, level text, level note, design_ref)
CHECKS = {
 "C01": ("model_checking",
   "bounded exhaustive enumeration of recorder histories (deviation-bounded: absences, rollbacks, items) x versions x port configs x fills, each executed as write(read(x)) on the real code",
   "Every well-formed replay the reference recorder can emit within the stated bounds (all 25 layout classes, all 81 port/ICs configurations in the thorough tier, <=3-4 frames with <=2-3 deviations, 5 fill patterns, gecko/no gecko, 0/1/2 Game Ends, metadata/none/empty; all 784 versions with a fixed small history) is read and written back by the real code and compared byte for byte. Exhaustive inside the bound, no sampling.",
   "Trusted: the hand-transcribed spec tables (self-checked by double entry at start-up and bound to the repository's fixture replays); 32-bit field values are covered by patterns, not all 2^32 values.",
   "5 C01"),
 "C02": ("model_checking",
   "bounded exhaustive enumeration of replays x {none,LZ4,ZSTD} x {hash off,on}, each executed as slp->slpp->slp on the real code",
   "All corner shapes (zero frames, no/empty metadata, no end, double end, gecko, nothing) per layout class x 3 compressions x 2 hash settings, all 784 versions, and the deviation-bounded history space: bytes identical, hash/quirks carried, re-read game equal field by field.",
   "arrow2 IPC, lz4, zstd, tar, serde_json are trusted base (exercised, not verified in isolation).",
   "5 C02"),
 "C03": ("model_checking",
   "complete enumeration over all 784 versions (one-shot and event-by-event API) and exhaustive 8/16-bit value sweeps per field against an independent spec table; plus the history exploration and the cross product of optional dimensions",
   "Every version 0.1..3.16 and every frame-event field: decoded column == big-endian bytes at the SPEC offset, present iff version >= since; all 256 / 65,536 values of 8/16-bit fields, walking bits + IEEE specials for 32-bit fields; checked on Game.frames and on the Arrow array addressed by field name; plus the fixture replays.",
   "32-bit fields not enumerated over 2^32 values; spec tables hand-transcribed and self-checked.",
   "5 C03"),
 "C04": ("model_checking",
   "explicit-state exploration of the frame open/close protocol: every transition is one real parse_event call, state inspected after every event against a reference walker",
   "All event histories of the recorder grammar within the bound (3 framing regimes, id steps {+1,0,-1,+2}, every presence pattern of every character for <=4 characters, 0..2 items, 6-81 port configs): one row per frame occurrence, presence bits, values in the right row/port, item grouping, all column lengths; one-shot and incrementally after every event.",
   "Presence is defined by the reference walker (Pre+Post between a frame's opening and closing events).",
   "5 C04"),
 "C05": ("model_checking",
   "exhaustive single-byte sweep (every offset x 256 values) of every Game Start length class and full product for Game End, against an independent offset table; all 784 versions with frames under every option combination",
   "Every mapped and unmapped byte of each of the 10 Game Start layouts through all 256 values, all 5^4 port-type patterns x teams, NUL at every position of every string field; Game End: every byte x 256 and the full method x LRAS x 6^4 placement product. Fields, optional-field presence, player listing, raw bytes and JSON rendering compared with an independent decode.",
   "encoding_rs Shift-JIS table trusted; unterminated UID/match-id strings are an open zone.",
   "5 C05"),
 "C06": ("fault_enumeration",
   "exhaustive enumeration of the <=1 (thorough: <=2) deviation neighbourhood of well-formed replays (structure-aware and byte-level), all short suffixes after every parser state, every read call x error kind; on the real one-shot and incremental readers under catch_unwind + watchdog + progress-bounded reader",
   "No panic, abort, hang or read loop without progress for any input in the explored neighbourhood (about 1.2 M inputs quick, 21 M thorough) under all 4 option combinations and through the incremental API; injected non-Interrupted read errors surface as Err; metadata nested up to 10^6 deep in a subprocess.",
   "'All byte strings' cannot be enumerated: the claim is for the stated neighbourhood.",
   "5 C06"),
 "C07": ("fault_enumeration",
   "every crash point: every proper prefix of well-formed .slp files and of written .slpp archives, read by the real code under a virtual clock and watchdog",
   "Every byte offset of every generated finished replay (x skip_frames x hash) must give Err; every prefix of the produced archives (3 compressions, thorough) gives Err or exactly the full game; sleeping is intercepted (interposed nanosleep) so a wait-for-data loop is a verdict, not a timeout.",
   "Truncation is modelled as EOF at the cut.",
   "5 C07"),
 "C08": ("model_checking",
   "exhaustive insertion of unknown events (all singles, all pairs, a triple; every one of the 246 undefined codes; every payload size 1..=1100 and every multiple of 512 with its neighbours; events cut into Message Splitter blocks) at every event boundary of replays with one, two and no Game End; newer-version payload extension per event kind; differential oracle against the same replay without them",
   "For replays of every framing regime: every placement of 1-3 table-declared unknown events of 5 code/size shapes yields the identical game; versions > 3.16 with +1/+3/+17 trailing bytes on each known event parse to the same known fields.",
   "Four defects found here are repaired (6a9aef4, b6fe70b, 000e677); no open finding.",
   "5 C08"),
 "C09": ("model_checking",
   "complete enumeration of all 2^24 version triples for both writers",
   "Err iff (major,minor,patch) > (3,16,0) for slippi::write (complete) and peppi::write (complete on the refusing side; accepted side every (major,minor) x patch {0,1,255} quick, all 200,705 thorough).",
   "Uses a zero-frame game stamped with the triple; the guard is invoked first in both writers.",
   "5 C09"),
 "C10": ("model_checking",
   "bounded exhaustive enumeration of finished replays x options, differential oracle skip-read vs full read",
   "All 784 versions and the layout-class edges x gecko shapes x {1,2} ends x {metadata,none,empty} x histories x hash: skip_frames returns equal start/end/metadata, zero frames with correctly shaped empty columns, result writes/re-reads/converts; same for peppi::read's skip option.",
   "Gecko codes / quirks of the skip result are not compared (not promised).",
   "5 C10"),
 "C11": ("model_checking",
   "exhaustive enumeration of read schedules (every two-piece split, all chunk sizes, every <=1-2 short-read deviation and one interrupted call at every read-call index) of an environment-owned reader, and of call histories (failed hashed read, then the whole file)",
   "hash == xxh3 (one-shot reference) of the bytes through the closing brace for every schedule and both skip settings, also with 1 .. 17 MiB (thorough 33 MiB) of events ahead of Game End; trailing bytes excluded; None when not requested; carried through .slpp.",
   "xxhash-rust one-shot xxh3_64 is the reference.",
   "5 C11"),
 "C12": ("model_checking",
   "explicit-state exploration over events x read schedules: every transition is one real parse_event call on an environment-owned reader; unknown events up to 65,535 bytes at every boundary",
   "After every call bytes_read() == raw bytes consumed == bytes handed out, frame count monotone, completed rows equal the model; final ParseState equals the one-shot game through the Game trait; all histories x 3 schedules and 6 bases x every split/chunk/short-read deviation.",
   "Rows count as completed when the reference walker has seen their closing event.",
   "5 C12"),
 "C13": ("model_checking",
   "bounded exhaustive enumeration (rides on the C04 exploration) comparing transpose_one / Game::frame with the columns leaf by leaf",
   "Every game of the history exploration, all 784 versions, every row, every leaf, finished (read from .slp and loaded back from .slpp) and in-progress (completed rows after every event): row view == column value, absent iff column absent, items == slice between offsets.",
   "Fill patterns make same-typed sibling fields distinct.",
   "5 C13"),
 "C14": ("model_checking",
   "complete enumeration over all 784 versions x 81 port configurations; schema compared with two independently built expectations; leaves addressed by name",
   "Arrow schema (names, nesting, order, primitive types) equals the SPEC transcription and gen/resources/frames.json; one row per frame; struct validity == presence at every nesting level; every exported leaf == in-memory column; frames imported from a window (rows k..) of the exported array export and import to the same window; import serialises to the identical .slp.",
   "Nullability flags not compared; `end` (3.0-3.6) and `ports` (no player) may be omitted: Arrow has no field-less struct.",
   "5 C14"),
 "C15": ("model_checking",
   "complete enumeration of all id sequences up to length 8 (9) over 4 (6) ids, contiguous, gapped and far-apart alphabets, both modes, against the naive definition; all ordered pairs of short sequences as two calls on a fresh thread",
   "Every sequence: mask length, marked(i) iff earlier/later equal id, exactly one unmarked row per id.",
   "Sequences longer than the bound not enumerated.",
   "5 C15"),
 "C16": ("model_checking",
   "exhaustive enumeration of all metadata trees of a bounded grammar including every key order, also behind 601 .. 196,608 bytes of tolerated content after Game End, with independent UBJSON/tar/JSON readers",
   "Tree with key order preserved on read, bytes reproduced on write, metadata.json in .slpp token-identical in order and values, peppi::read gives the same tree; absent metadata => None.",
   "Depth bounded at 128 by the library; grammar bounds stated in the evidence.",
   "5 C16"),
 "C17": ("model_checking",
   "exhaustive enumeration of tolerated irregularities: all order-preserving permutations of a frame's events x junk after Game End x unknown events x missing end/metadata; metadata strings of every length 0..=255",
   "For every accepted input: declared raw length == measured raw element, re-read equal, write is a fixed point.",
   "Rejected inputs are outside the quantifier (count reported; run aborts as vacuous if >10%).",
   "5 C17"),
 "C18": ("model_checking",
   "bounded exhaustive enumeration of archives x compressions, every placement of unknown entries, and all 2^24 format-version triples (thorough) with an independent tar reader/writer",
   "Signature, entry order, JSON entries equal to reconstructed renderings, raw entries, determinism; unknown entries ignored at every position (singles, pairs; names that resemble known entries with other content; sizes up to 4 MiB); every entry length modulo 512; read Err for every format version < 2.0.0 and Ok from 2.0.0 up to the version the writer stamps.",
   "Open zones: frames.arrow presence for zero-frame games; format versions later than the one the writer stamps; known names below a directory.",
   "5 C18"),
 "C19": ("model_checking",
   "complete enumeration of all 1- and 2-byte sequences at field start and straddling the field end, NUL at every position with garbage, all texts of up to 4 units of different expansion and every run of an expanding unit, and all 1,112,064 Unicode scalars for normalisation",
   "Field == strict Shift-JIS decode of the bytes before the first NUL, invalid => Err, bytes after NUL irrelevant; normalisation mapping exact and idempotent for every scalar value.",
   "encoding_rs table is the reference for valid sequences.",
   "5 C19"),
 "C20": ("model_checking",
   "complete enumeration: 2^16 x 2^16 gate evaluations, 2^24 display/parse round trips for both Version types, all strings of length <=6 (7) over an 11-symbol alphabet, structured strings with long multi-byte components",
   "gte == lexicographic >=, lt == !gte; parse(display(v)) == v; non-version strings rejected, canonical ones accepted.",
   "'+' prefixes / leading zeros are an open zone.",
   "5 C20"),
}

PENDING_REASON = "check not built yet in this session (under construction; see DESIGN.md section 5)"

def main():
    props = [json.loads(l) for l in open(os.path.join(HERE, "properties.jsonl")) if l.strip()]
    checks, na = [], []
    for p in props:
        pid = p["id"]
        if pid in CHECKS:
            cat, tech, text, note, ref = CHECKS[pid]
            checks.append({
                "property_id": pid,
                "quick_cmd": f"./check {pid} --tier quick",
                "thorough_cmd": f"./check {pid} --tier thorough",
                "evidence_file": f"/verif/evidence/{pid}.json",
                "replay_cmd_template": f"./check {pid} --replay {{path}}",
                "engine": "mc",
                "level_claimed": {"category": cat, "text": text, "design_ref": ref},
                "level_note": note,
                "technique": tech,
            })
        else:
            na.append({"property_id": pid, "reason": PENDING_REASON})
    m = {
        "version": 1,
        "setup_cmd": "cd /verif/mc && CARGO_NET_OFFLINE=true cargo build --release --offline",
        "hooks": {
            "guard": "peppi_verif",
            "enable": "none needed: every observation point is public API; the only hidden nondeterminism (thread::sleep) is owned by symbol interposition in the harness binary",
            "baseline_off_cmd": "cd /repo && cargo test --workspace --no-fail-fast --offline",
            "source_commits": [],
            "add_only": True,
        },
        "engines": [{
            "name": "mc",
            "path": "/verif/mc",
            "serves_properties": sorted(CHECKS.keys()),
            "kind_free_text": "hand-rolled stateless, deviation-bounded exhaustive explorer in Rust that executes every generated trace on the real peppi code (path dependency on /repo), with a reference recorder/walker as the model, an environment-owned reader (short reads, faults, truncation), a virtual clock and a watchdog",
        }],
        "checks": checks,
        "not_applicable": na,
        "notes": "All checks rebuild /verif/mc against /repo's working tree (path dependency). Exit 2 = machinery failure (never a verdict). Known findings: /verif/known_findings.json.",
    }
    # (kept even when empty: all 20 properties are claimed)
    json.dump(m, open(os.path.join(HERE, "MANIFEST.json"), "w"), indent=1)
    print("wrote MANIFEST.json:", len(checks), "checks,", len(na), "not_applicable")

if __name__ == "__main__":
    main()
