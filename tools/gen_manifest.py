#!/usr/bin/env python3
"""Generates /verif/MANIFEST.json from the table below (kept in one place so it stays valid)."""
import json, os, sys

HERE = os.path.dirname(os.path.dirname(os.path.abspath(__file__)))

# id -> (category, technique, level text, level note, design_ref)
CHECKS = {
 "C01": ("model_checking",
   "bounded exhaustive enumeration of recorder histories (deviation-bounded: absences, rollbacks, items) x versions x port configs x fills, each executed as write(read(x)) on the real code",
   "Every well-formed replay the reference recorder can emit within the stated bounds (all 25 layout classes, all 81 port/ICs configurations in the thorough tier, <=3-4 frames with <=2-3 deviations, 5 fill patterns, gecko/no gecko, 0/1/2 Game Ends, metadata/none/empty) is read and written back by the real code and compared byte for byte. Exhaustive inside the bound, no sampling.",
   "Trusted: the hand-transcribed spec tables (self-checked by double entry at start-up and bound to the repository's fixture replays by C03's fixture walk); 32-bit field values are covered by patterns, not all 2^32 values.",
   "5 C01"),
}

PENDING_REASON = "check not built yet in this session (under construction; see DESIGN.md section 5)"

def main():
    props = [json.loads(l) for l in open(os.path.join(HERE, "properties.jsonl")) if l.strip()]
    checks, na = [], []
    for p in props:
        pid = p["id"]
        if pid in CHECKS:
            cat, tech, text, note, ref = CHECKS[pid]
            checks.append({
                "property_id": pid,
                "quick_cmd": f"./check {pid} --tier quick",
                "thorough_cmd": f"./check {pid} --tier thorough",
                "evidence_file": f"/verif/evidence/{pid}.json",
                "replay_cmd_template": f"./check {pid} --replay {{path}}",
                "engine": "mc",
                "level_claimed": {"category": cat, "text": text, "design_ref": ref},
                "level_note": note,
                "technique": tech,
            })
        else:
            na.append({"property_id": pid, "reason": PENDING_REASON})
    m = {
        "version": 1,
        "setup_cmd": "cd /verif/mc && CARGO_NET_OFFLINE=true cargo build --release --offline",
        "hooks": {
            "guard": "peppi_verif",
            "enable": "none needed: every observation point is public API; the only hidden nondeterminism (thread::sleep) is owned by symbol interposition in the harness binary",
            "baseline_off_cmd": "cd /repo && cargo test --workspace --no-fail-fast --offline",
            "source_commits": [],
            "add_only": True,
        },
        "engines": [{
            "name": "mc",
            "path": "/verif/mc",
            "serves_properties": sorted(CHECKS.keys()),
            "kind_free_text": "hand-rolled stateless, deviation-bounded exhaustive explorer in Rust that executes every generated trace on the real peppi code (path dependency on /repo), with a reference recorder/walker as the model, an environment-owned reader (short reads, faults, truncation), a virtual clock and a watchdog",
        }],
        "checks": checks,
        "not_applicable": na,
        "notes": "All checks rebuild /verif/mc against /repo's working tree (path dependency). Exit 2 = machinery failure (never a verdict). Known findings: /verif/known_findings.json.",
    }
    if not na:
        del m["not_applicable"]
    json.dump(m, open(os.path.join(HERE, "MANIFEST.json"), "w"), indent=1)
    print("wrote MANIFEST.json:", len(checks), "checks,", len(na), "not_applicable")

if __name__ == "__main__":
    main()
