#!/usr/bin/env python3
"""merges /verif/seeded/matrix.<k>.json (written by the shards of tools/matrix.sh) into matrix.json"""
import json, glob, os
m = {}
for f in sorted(glob.glob('/verif/seeded/matrix.[0-9]*.json')):
    m.update(json.load(open(f)))
json.dump(dict(sorted(m.items())), open('/verif/seeded/matrix.json', 'w'), indent=0)
for f in glob.glob('/verif/seeded/matrix.[0-9]*.json'):
    os.remove(f)
print(len(m), 'seeds')
