#!/usr/bin/env python3
"""merges the shard files written by tools/matrix.sh: `matrix_merge.py` -> seeded/matrix.json (kept entries
of an earlier full run are updated, not dropped); `matrix_merge.py own` -> seeded/own.json"""
import json, glob, os, sys
kind = 'own' if len(sys.argv) > 1 and sys.argv[1] == 'own' else 'matrix'
dst = f'/verif/seeded/{kind}.json'
m = json.load(open(dst)) if os.path.exists(dst) else {}
for f in sorted(glob.glob(f'/verif/seeded/{kind}.[0-9]*.json')):
    m.update(json.load(open(f)))
    os.remove(f)
json.dump(dict(sorted(m.items())), open(dst, 'w'), indent=0)
print(len(m), 'seeds')
